"""C22 - proxy-proof verification equals the normative nine-step decision table.

Every generated history (worker configuration + sequence of header presentations
under a controlled wall clock and monotonic clock) is run through the real code on
four legs and compared, step by step, with the reference verifier
``lib/models/proof_table.py`` (written from docs/proxy-proof-spec.md sections 3, 4,
6, 9, 10 only):

* ``direct``   - ``verify_proof(token, now=wall, nonce_cache=NonceCache(clock=mono))``;
* ``defclock`` - ``verify_proof(token)`` with the module-level ``time`` of
  ``_proof`` rebound to a virtual clock (the production ``now=None`` path);
* ``allow``    - ``make_wsgi_app(authenticate=require_all(proxy_proof_gate(allow)))``
  driven through the raw WSGI driver; the RPC method returns the auth claims;
* ``require``  - the same in require mode: 200 vs 401, byte-identity of all 401s
  (status + every header except ``x-request-id`` + body), no echo of any claimed
  header field or reason code, and the reason code taken from the gate's log record.

Each leg owns its nonce cache and its own model instance.
"""

from __future__ import annotations

import json
import os
import logging
import random
import types
from typing import Any

from lib import shard
from lib.evidence import Check

PID = "C22"
ENGINE = "E2-raw-drivers+E5-models"
TECHNIQUE = "differential execution of the real verifier and WSGI gate against an independent nine-step reference model over grammar-generated header histories under virtual clocks"
LEVEL_TEXT = (
    "Exploration: the real verify_proof and the real WSGI gate (allow and require mode) ran on seeded, grammar-generated "
    "histories of header presentations (every field-level mutation class, clock offsets at +-skew-1/+-skew/+-skew+1, key maps "
    "with rotation overlap, nonce replays, capacity overflow) and agreed with an independently written nine-step reference "
    "verifier on every judged step; all require-mode 401s were byte-identical and echoed nothing. Held = no divergence among "
    "the executions counted in the evidence."
)
LEVEL_NOTE = (
    "reference model trusted (written from the spec, no regex, own base64/canonical string); stdlib hmac/hashlib trusted; clocks "
    "controlled through the documented now=/clock= parameters and by rebinding the module-level name `time` in _proof/_replay; "
    "spec-silent cases (non-canonical base64 MAC spelling, nonce-window boundary, capacity eviction, fractional clock at the "
    "expiry boundary) are counted as unjudged"
)
CATEGORY = "exploration"
RULE = (
    "case = one header presentation inside a history (config: 1-4 kids with shared labels/secrets, origin, skew in {1,2,30,300}, "
    "replay cache on/off, capacity); header = base token (kid known/unknown/case-flipped; ts offset class; ts spelling; nonce "
    "fresh/replay of accepted/replay of rejected; MAC good/other secret/other origin/bad framing/flipped/non-canonical) + "
    "optional string mutation (field count, version, per-field charset and length, padding, non-ASCII digits, commas, multiple "
    "instances, > 512 chars/bytes, empty, absent, whitespace, newline); distinct class = (leg-independent) kid/offset/nonce/mac/"
    "mutation shape -> deciding table row"
)

REASONS = ("no_proof", "malformed", "unknown_kid", "expired", "not_yet_valid", "bad_mac", "replayed")
LEGS = ("direct", "defclock", "allow", "require")

# ---------------------------------------------------------------------------
# generator
# ---------------------------------------------------------------------------

_KID_POOL = [
    "k",
    "prod-use1",
    "prod-use1-v2",
    "K" * 64,
    "a_b-C9",
    "0",
    "staging-proxy",
    "conformance-proxy",
    "-",
    "_x",
]
_ORIGINS = ["w1", "worker.example:8443/a", "a", "o" * 255, "conformance-origin", "svc/eu-west:1", "A.b-c_d"]
_UNKNOWN_KIDS = ["zz-claimed-kid-canary", "Q" * 64, "nokey_0", "prod-use1-v3"]
_B64 = "ABCDEFGHIJKLMNOPQRSTUVWXYZabcdefghijklmnopqrstuvwxyz0123456789-_"


def _gen_config(rng: random.Random) -> dict[str, Any]:
    nk = rng.choice([1, 2, 2, 3, 4])
    kids = rng.sample(_KID_POOL, nk)
    if rng.random() < 0.4 and "prod-use1" not in kids:
        kids[0] = "prod-use1"
    if "prod-use1" in kids and "prod-use1-v2" not in kids and rng.random() < 0.7:
        kids.append("prod-use1-v2")
    secrets: dict[str, list[str]] = {}
    prev: bytes | None = None
    for kid in kids:
        sec = rng.randbytes(32)
        if prev is not None and rng.random() < 0.15:
            sec = prev  # two kids sharing one secret (misconfiguration the audience binding must survive)
        prev = sec
        label = "prod-use1" if kid.startswith("prod-use1") else ("lbl-" + kid[:8])
        secrets[kid] = [sec.hex(), label]
    return {
        "secrets": secrets,
        "origin": rng.choice(_ORIGINS),
        "skew": rng.choice([1, 2, 30, 30, 300]),
        "replay": rng.random() < 0.85,
        "capacity": rng.choice([100_000] * 5 + [1, 2, 3]),
        "wall0": rng.choice([1_700_000_000, 1_700_000_000, 5, 2_000_000_000, 253_402_300_799]),
        "mono0": rng.choice([0.0, 12345.5, 1e6]),
    }


def _nonce(rng: random.Random) -> str:
    return "".join(rng.choice(_B64) for _ in range(22))


def _flip_char(rng: random.Random, s: str, upto: int) -> str:
    i = rng.randrange(upto)
    c = rng.choice([x for x in _B64 if x != s[i]])
    return s[:i] + c + s[i + 1 :]


def _noncanon_last(s: str) -> str:
    """Same 32 bytes, different spelling: set the two unused trailing bits of the last char."""
    v = _B64.index(s[-1])
    return s[:-1] + _B64[(v & ~3) | ((v & 3) ^ 1)]


_FIELD_MUTS: dict[str, list[Any]] = {
    "version": ["v2", "V1", "v1 ", " v1", "v01", "", "v1\n", "1", "ｖ1", "v1\x00", "v"],
    "kid": ["", "X" * 65, "a+b", "a/b", "a=b", "a b", "a\x00b", "k\xe9", "kid\n", "a~b", "%41", "kıd", " kid", "k\udc80"],
    "ts": [
        "",
        "1" * 21,
        "+{ts}",
        "-{ts}",
        "{ts} ",
        " {ts}",
        "1_7",
        "1e9",
        "0x10",
        "１２３",
        "١٢٣",
        "\xb2",
        "{ts}\n",
        "{ts}\xb9",
        "१",
    ],
    "nonce": ["{n21}", "{n}A", "{n}==", "{n20}+/", "{n21}\xe9", "{n}\n", "{n21}\n", "", "{n21} ", "{n21}="],
    "mac": ["{m42}", "{m}A", "{m}=", "{m41}+/", "{m42}\xe9", "{m}\n", "{m42}\n", "", "{m42} ", "{m}==", "{m}\r"],
}

_WHOLE_MUTS = [
    "drop_field",
    "extra_field",
    "join_fields",
    "trailing_dot",
    "leading_dot",
    "only_dots",
    "lead_space",
    "trail_space",
    "trail_tab",
    "trail_newline",
    "comma_second_token",
    "comma_space_second_token",
    "trailing_comma",
    "comma_inside_kid",
    "pad_over_512",
    "pad_exactly_512",
    "pad_513",
    "nonascii_300_chars",
    "empty",
    "absent",
    "two_instances_same",
    "two_instances_valid_empty",
    "three_instances",
    "upper",
    "lower",
]


def _mutate(rng: random.Random, fields: list[str], which: str) -> tuple[list[str], str]:
    """Return (header instances, label)."""
    names = ["version", "kid", "ts", "nonce", "mac"]
    f = list(fields)
    if which in names:
        idx = names.index(which)
        j = rng.randrange(len(_FIELD_MUTS[which]))
        tpl = _FIELD_MUTS[which][j]
        cur = f[idx]
        val = (
            tpl.replace("{ts}", cur)
            .replace("{n21}", cur[:21])
            .replace("{n20}", cur[:20])
            .replace("{n}", cur)
            .replace("{m42}", cur[:42])
            .replace("{m41}", cur[:41])
            .replace("{m}", cur)
        )
        f[idx] = val
        return [".".join(f)], f"{which}#{j}"
    tok = ".".join(f)
    w = which
    if w == "drop_field":
        i = rng.randrange(5)
        return [".".join(f[:i] + f[i + 1 :])], f"{w}{i}"
    if w == "extra_field":
        i = rng.randrange(6)
        return [".".join(f[:i] + [rng.choice(["x", "", "v1"])] + f[i:])], w
    if w == "join_fields":
        i = rng.randrange(4)
        return [".".join(f[:i] + [f[i] + f[i + 1]] + f[i + 2 :])], f"{w}{i}"
    if w == "trailing_dot":
        return [tok + "."], w
    if w == "leading_dot":
        return ["." + tok], w
    if w == "only_dots":
        return ["." * rng.choice([1, 4, 5])], w
    if w == "lead_space":
        return [" " + tok], w
    if w == "trail_space":
        return [tok + " "], w
    if w == "trail_tab":
        return [tok + "\t"], w
    if w == "trail_newline":
        return [tok + "\n"], w
    if w == "comma_second_token":
        return [tok + "," + tok], w
    if w == "comma_space_second_token":
        return [tok + ", " + tok], w
    if w == "trailing_comma":
        return [tok + ","], w
    if w == "comma_inside_kid":
        f[1] = f[1][:1] + "," + f[1][1:]
        return [".".join(f)], w
    if w == "pad_over_512":
        f[1] = f[1] + "A" * 600
        return [".".join(f)], w
    if w in ("pad_exactly_512", "pad_513"):
        target = 512 if w == "pad_exactly_512" else 513
        need = target - len(tok)
        f[1] = f[1] + "A" * max(0, need)
        return [".".join(f)], w
    if w == "nonascii_300_chars":
        f[1] = "\xe9" * 300
        return [".".join(f)], w
    if w == "empty":
        return [""], w
    if w == "absent":
        return [], w
    if w == "two_instances_same":
        return [tok, tok], w
    if w == "two_instances_valid_empty":
        return [tok, ""], w
    if w == "three_instances":
        return [tok, "x", tok], w
    if w == "upper":
        return [tok.upper()], w
    if w == "lower":
        return [tok.lower()], w
    raise AssertionError(w)


def _gen_step(rng: random.Random, cfg: dict[str, Any], st: dict[str, Any]) -> dict[str, Any]:
    """One presentation: advance the clocks, then build the header relative to them."""
    from lib.models import proof_table as pt

    skew = cfg["skew"]
    dw = rng.choice([0, 0, 0, 1, 1, skew - 1, skew, skew + 1, 2 * skew + 1, 0])
    dm = float(dw)
    r = rng.random()
    if r < 0.08:
        dm += rng.choice([0.25, 0.5, 0.75])
    elif r < 0.12:
        dw += rng.choice([-3 * skew, 3 * skew, -1, 1])  # wall clock stepped, monotonic unaffected
    st["wall"] = max(0, st["wall"] + dw)
    st["mono"] += max(0.0, dm)
    wall = st["wall"]

    kids = list(cfg["secrets"])
    # full replay of an earlier header string
    if st["sent"] and rng.random() < 0.10:
        inst = rng.choice(st["sent"])
        return {"instances": list(inst), "shape": "resend_earlier_header", "frac": 0.0}

    kc = rng.choices(["known", "unknown", "caseflip"], [80, 14, 6])[0]
    kid = rng.choice(kids)
    sign_secret = bytes.fromhex(cfg["secrets"][kid][0])
    if kc == "unknown":
        kid = rng.choice([k for k in _UNKNOWN_KIDS if k not in cfg["secrets"]])
        sign_secret = rng.randbytes(32) if rng.random() < 0.5 else bytes.fromhex(cfg["secrets"][kids[0]][0])
    elif kc == "caseflip":
        flipped = kid.swapcase()
        if flipped == kid or flipped in cfg["secrets"]:
            kc = "known"
        else:
            kid = flipped

    offc = rng.choices(
        ["0", "skew-1", "skew", "skew+1", "-(skew-1)", "-skew", "-(skew+1)", "far_past", "far_future", "ts0", "huge20"],
        [20, 8, 14, 14, 8, 14, 14, 3, 3, 1, 1],
    )[0]
    off = {
        "0": 0,
        "skew-1": skew - 1,
        "skew": skew,
        "skew+1": skew + 1,
        "-(skew-1)": -(skew - 1),
        "-skew": -skew,
        "-(skew+1)": -(skew + 1),
        "far_past": 1000 * skew,
        "far_future": -1000 * skew,
    }.get(offc, 0)
    ts_int = max(0, wall - off)
    if offc == "ts0":
        ts_int = 0
    ts = str(ts_int)
    if offc == "huge20":
        ts = "9" * 20
    tsc = "plain"
    r = rng.random()
    if r < 0.06 and len(ts) < 20:
        ts = ts.rjust(rng.choice([len(ts) + 1, 20]), "0")
        tsc = "leading_zeros"

    nc = rng.choices(["fresh", "replay_accepted", "replay_rejected"], [70, 22, 8])[0]
    nonce = _nonce(rng)
    if nc == "replay_accepted" and st["accepted_nonces"]:
        nonce = rng.choice(st["accepted_nonces"][-6:])
    elif nc == "replay_rejected" and st["rejected_nonces"]:
        nonce = rng.choice(st["rejected_nonces"][-6:])
    else:
        nc = "fresh"

    mc = rng.choices(
        ["good", "other_secret", "other_origin", "framing", "flipped", "noncanon", "zero", "ts_normalised"],
        [66, 8, 6, 6, 6, 3, 2, 3],
    )[0]
    origin = cfg["origin"]
    mac = pt.mac_field(sign_secret, kid, ts, nonce, origin)
    if mc == "other_secret":
        others = [bytes.fromhex(v[0]) for k, v in cfg["secrets"].items() if bytes.fromhex(v[0]) != sign_secret]
        mac = pt.mac_field(rng.choice(others) if others and rng.random() < 0.7 else rng.randbytes(32), kid, ts, nonce, origin)
    elif mc == "other_origin":
        o2 = rng.choice([o for o in _ORIGINS if o != origin] + [origin + "x", origin[:-1] or "z"])
        mac = pt.mac_field(sign_secret, kid, ts, nonce, o2)
    elif mc == "framing":
        import hashlib
        import hmac as _hmac

        variants = [
            b".".join([b"vgi.proxy.proof.v1", kid.encode(), ts.encode(), nonce.encode(), origin.encode()]),
            b"\x00".join([kid.encode(), ts.encode(), nonce.encode(), origin.encode()]),
            b"\x00".join([b"vgi.proxy.proof.v1", kid.encode(), ts.encode(), nonce.encode()]),
            b"\x00".join([b"vgi.proxy.proof.v1", ts.encode(), kid.encode(), nonce.encode(), origin.encode()]),
            b"\x00".join([b"vgi.proxy.proof.v1", kid.encode(), ts.encode(), nonce.encode(), origin.encode()]) + b"\x00",
            b"\x00".join([b"vgi.proxy.proof.v2", kid.encode(), ts.encode(), nonce.encode(), origin.encode()]),
        ]
        mac = pt.b64url_nopad(_hmac.new(sign_secret, rng.choice(variants), hashlib.sha256).digest())
    elif mc == "flipped":
        mac = _flip_char(rng, mac, 42)
    elif mc == "noncanon":
        mac = _noncanon_last(mac)
    elif mc == "zero":
        mac = "A" * 43
    elif mc == "ts_normalised":
        if tsc == "leading_zeros":
            mac = pt.mac_field(sign_secret, kid, str(int(ts)), nonce, origin)
        else:
            mc = "good"

    fields = ["v1", kid, ts, nonce, mac]
    mut = "none"
    instances = [".".join(fields)]
    if rng.random() < 0.42:
        which = rng.choice(["version", "kid", "ts", "nonce", "mac"] * 3 + _WHOLE_MUTS)
        instances, mut = _mutate(rng, fields, which)
    frac = rng.choice([0.0, 0.0, 0.0, 0.5, 0.999])
    return {"instances": instances, "shape": f"{kc}/{offc}/{tsc}/{nc}/{mc}/{mut}", "frac": frac, "nonce": nonce}


# ---------------------------------------------------------------------------
# the real code, four legs
# ---------------------------------------------------------------------------


class _Clock:
    def __init__(self, wall: int, mono: float) -> None:
        self.wall = wall
        self.mono = mono
        self.frac = 0.0

    def time(self) -> float:
        return self.wall + self.frac

    def monotonic(self) -> float:
        return self.mono


class _LogTap(logging.Handler):
    def __init__(self) -> None:
        super().__init__()
        self.records: list[logging.LogRecord] = []

    def emit(self, record: logging.LogRecord) -> None:
        self.records.append(record)


def _wsgi_value(v: str) -> str:
    """A header value as a WSGI server would hand it over (bytes shown as latin-1)."""
    try:
        v.encode("latin-1")
        return v
    except UnicodeEncodeError:
        return v.encode("utf-8", "surrogatepass").decode("latin-1")


_SERVER: Any = None


def _rpc_server() -> Any:
    global _SERVER
    if _SERVER is None:
        from typing import Protocol

        from vgi_rpc.rpc import CallContext, RpcServer

        class WhoProto(Protocol):
            def who(self) -> str: ...

        class WhoImpl:
            def who(self, ctx: CallContext) -> str:
                a = ctx.auth
                return json.dumps(
                    {
                        "claims": {k: dict(v) if hasattr(v, "keys") else v for k, v in dict(a.claims).items()},
                        "principal": a.principal,
                        "domain": a.domain,
                        "authenticated": a.authenticated,
                    }
                )

        _SERVER = RpcServer(WhoProto, WhoImpl())
    return _SERVER


def _norm_resp(resp: Any) -> tuple[int, tuple[tuple[str, str], ...], bytes]:
    hdrs = tuple(sorted((k.lower(), v) for k, v in resp.headers if k.lower() != "x-request-id"))
    return (resp.status, hdrs, resp.body)


def _secrets_of(cfg: dict[str, Any]) -> dict[str, tuple[bytes, str]]:
    return {k: (bytes.fromhex(v[0]), v[1]) for k, v in cfg["secrets"].items()}


def _run_history(chk: Check, hist: dict[str, Any], job: dict[str, Any]) -> None:
    import warnings

    import pyarrow as pa

    from lib import httpdrv
    from lib.models import proof_table as pt
    from vgi_rpc.http import _proof, _replay, make_wsgi_app, require_all

    cfg = hist["config"]
    secrets = _secrets_of(cfg)
    origin, skew = cfg["origin"], cfg["skew"]
    clock = _Clock(cfg["wall0"], cfg["mono0"])

    # Rebind the late-bound module name `time` (default clocks of _proof and NonceCache).
    shim = types.SimpleNamespace(time=clock.time, monotonic=clock.monotonic)
    real_proof_time, real_replay_time = _proof.time, _replay.time
    _proof.time = shim  # type: ignore[assignment]
    _replay.time = shim  # type: ignore[assignment]
    tap = _LogTap()
    plog = logging.getLogger(_proof.__name__)
    old_handlers, old_prop, old_level = plog.handlers[:], plog.propagate, plog.level
    plog.handlers = [tap]
    plog.propagate = False
    plog.setLevel(logging.DEBUG)
    try:
        models = {
            leg: pt.ProofModel(dict(secrets), origin, skew, replay_enabled=cfg["replay"], capacity=cfg["capacity"]) for leg in LEGS
        }
        caches = {
            leg: (_replay.NonceCache(ttl_seconds=skew, capacity=cfg["capacity"], clock=clock.monotonic) if cfg["replay"] else None)
            for leg in ("direct",)
        }
        # defclock leg: NonceCache built with its *default* clock (-> shim.monotonic via the rebound name)
        caches["defclock"] = _replay.NonceCache(ttl_seconds=skew, capacity=cfg["capacity"]) if cfg["replay"] else None
        apps: dict[str, Any] = {}
        with warnings.catch_warnings():
            warnings.simplefilter("ignore")
            for mode in ("allow", "require"):
                pcfg = _proof.ProxyProofConfig(
                    mode=mode,  # type: ignore[arg-type]
                    origin_id=origin,
                    secrets=secrets,
                    skew_seconds=skew,
                    replay_capacity=cfg["capacity"],
                    enable_replay_cache=cfg["replay"],
                )
                # allow leg: injected now= callable; require leg: default clock (rebound time.time) on even histories
                use_now = mode == "allow" or hist["index"] % 2 == 0
                gate = _proof.proxy_proof_gate(pcfg, now=(lambda: clock.wall) if use_now else None)
                apps[mode] = make_wsgi_app(
                    _rpc_server(),
                    authenticate=require_all(gate),
                    proxy_proof_required=(mode == "require"),
                    token_key=b"\x07" * 32,
                )
        require_uses_now = hist["index"] % 2 == 0
        body = httpdrv.request_body("who", pa.schema([]), None)
        ref401: dict[str, tuple[Any, Any]] = {}
        desync: set[str] = set()

        for si, step in enumerate(hist["steps"]):
            clock.wall, clock.mono = step["wall"], step["mono"]
            clock.frac = step["frac"]
            instances: list[str] = step["instances"]
            shape = step["shape"]
            base_wit = {
                "job_seed": job["seed"],
                "history": hist["index"],
                "step": si,
                "config": {"kids": {k: v[1] for k, v in cfg["secrets"].items()}, "origin": origin[:40], "skew": skew, "replay": cfg["replay"], "capacity": cfg["capacity"]},
                "instances": instances,
                "wall": clock.wall,
                "mono": clock.mono,
                "frac": clock.frac,
                "shape": shape,
            }

            # ---------------- direct + defclock legs --------------------------------
            if len(instances) >= 1:
                token = ",".join(instances)
                for leg in ("direct", "defclock"):
                    m = models[leg]
                    frac = clock.frac if leg == "defclock" else 0.0
                    want = m.verify([token], clock.wall, clock.mono)
                    boundary = leg == "defclock" and frac > 0 and _taint_if_expiry_boundary(m, token, clock.wall, clock.mono)
                    got_kind, got_reason, got_claims = "?", "?", None
                    try:
                        if leg == "direct":
                            got_claims = _proof.verify_proof(
                                token, secrets=secrets, origin_id=origin, skew_seconds=skew, nonce_cache=caches[leg], now=clock.wall
                            )
                        else:
                            got_claims = _proof.verify_proof(token, secrets=secrets, origin_id=origin, skew_seconds=skew, nonce_cache=caches[leg])
                        got_kind, got_reason = "ok", "ok"
                    except _proof.ProofError as exc:
                        got_kind, got_reason = "reject", str(exc.reason)
                    except Exception as exc:  # noqa: BLE001
                        chk.case(f"{shape}->{want.step}")
                        chk.violation(
                            f"unexpected_exception:{leg}:{type(exc).__name__}",
                            f"verify_proof raised {type(exc).__name__} instead of ProofError/returning",
                            {**base_wit, "leg": leg, "exc": repr(exc)[:200], "model": [want.kind, want.reason, want.step]},
                        )
                        continue
                    chk.hit(f"{leg}:{got_reason}")
                    if os.environ.get("VERIF_C22_TRACE") and leg == "direct":
                        print("TRACE", si, shape, clock.wall, clock.mono, [t.split(".")[1:4] for t in instances], "model", want.kind, want.reason, "got", got_reason, flush=True)
                    if boundary:
                        # exact now - ts = skew + frac > skew, floor(now) - ts = skew: the spec does not fix the rounding
                        chk.skip("fractional_clock_at_expiry_boundary")
                        continue
                    _judge(chk, leg, want, got_kind, got_reason, got_claims, shape, base_wit, desync)

            # ---------------- WSGI legs -------------------------------------------
            wsgi_instances = [_wsgi_value(v) for v in instances]
            for mode in ("allow", "require"):
                m = models[mode]
                uses_now = mode == "allow" or require_uses_now
                want = m.verify(wsgi_instances, clock.wall, clock.mono)
                boundary = (not uses_now) and clock.frac > 0 and len(wsgi_instances) == 1 and _taint_if_expiry_boundary(m, wsgi_instances[0], clock.wall, clock.mono)
                hdrs: list[tuple[str, str]] = [("Content-Type", httpdrv.ARROW_CT)]
                accept_html = si % 5 == 4
                if accept_html:
                    hdrs.append(("Accept", "text/html"))
                for v in wsgi_instances:
                    hdrs.append(("VGI-Proxy-Proof", v))
                del tap.records[:]
                resp = httpdrv.call(apps[mode], "POST", "/who", hdrs, body)
                logged = [getattr(r, "proof_reason", None) for r in tap.records if hasattr(r, "proof_reason")]
                wit = {**base_wit, "leg": mode, "wsgi_instances": wsgi_instances, "status": resp.status, "model": [want.kind, want.reason, want.step]}
                if resp.exc is not None or resp.status >= 500:
                    chk.case(f"{shape}->{want.step}")
                    chk.violation(
                        f"gate_5xx:{mode}:{type(resp.exc).__name__ if resp.exc else resp.status}",
                        "the WSGI gate answered 5xx / raised on a proof header (spec 12: rejections MUST be 401, never 500)",
                        {**wit, "exc": repr(resp.exc)[:200], "body": resp.body[:200]},
                    )
                    continue
                got_claims = None
                if resp.status == 200:
                    try:
                        payload = json.loads(httpdrv.parse_ipc(resp.decoded_body())[0][0].column(0)[0].as_py())
                        got_claims = payload["claims"].get("vgi_proxy_proof")
                    except Exception as exc:  # noqa: BLE001
                        chk.inconclusive_because(f"could not decode who() result: {exc!r}")
                        continue
                if boundary:
                    chk.skip("fractional_clock_at_expiry_boundary")
                    continue
                if mode == "allow":
                    chk.hit("allow:claims_observed")
                    if resp.status != 200 or not isinstance(got_claims, dict):
                        chk.case(f"{shape}->{want.step}")
                        chk.violation(
                            "allow_mode_denied",
                            "allow mode must never deny; the request did not reach the method with proof claims",
                            {**wit, "body": resp.body[:200]},
                        )
                        continue
                    if got_claims.get("verified") == "true":
                        gk, gr = "ok", "ok"
                    else:
                        gk, gr = "reject", str(got_claims.get("reason"))
                    chk.hit(f"allow:{gr}")
                    if logged and gk == "reject" and logged[-1] != gr:
                        chk.violation("allow_log_reason_differs_from_claims", "logged proof_reason differs from the claims reason", {**wit, "logged": logged})
                    _judge(chk, "allow", want, gk, gr, got_claims if gk == "ok" else None, shape, wit, desync)
                else:
                    if resp.status == 200:
                        gk, gr = "ok", "ok"
                        if not (isinstance(got_claims, dict) and got_claims.get("verified") == "true"):
                            chk.violation("require_mode_served_unverified", "require mode served a request whose claims are not verified", {**wit, "claims": got_claims})
                        chk.hit("require:200")
                    elif resp.status == 401:
                        gk = "reject"
                        gr = str(logged[-1]) if logged else "?"
                        chk.hit("require:401")
                        if logged:
                            chk.hit("require:log_reason_observed")
                        # uniformity + no echo
                        key = "html" if accept_html else "plain"
                        norm = _norm_resp(resp)
                        if key not in ref401:
                            ref401[key] = (norm, wit)
                        else:
                            chk.hit("require:401_compared")
                            if ref401[key][0] != norm:
                                diff = "body" if ref401[key][0][2] != norm[2] else "headers" if ref401[key][0][1] != norm[1] else "status"
                                chk.violation(
                                    f"nonuniform_401:{diff}",
                                    "two require-mode failures produced different 401 responses",
                                    {**wit, "first": {"shape": ref401[key][1]["shape"], "model": ref401[key][1]["model"]}, "a": ref401[key][0][2][:300], "b": norm[2][:300], "ha": ref401[key][0][1], "hb": norm[1]},
                                )
                        text = (resp.body + b"\n" + "\n".join(f"{k}: {v}" for k, v in resp.headers).encode("latin-1", "replace")).decode("latin-1").lower()
                        chk.hit("require:echo_scanned")
                        for code in REASONS:
                            if code in text:
                                chk.violation(f"reason_echoed_in_401:{code}", "a verifier reason code appears in the 401 response", {**wit, "body": resp.body[:300]})
                        for v in wsgi_instances:
                            for part in v.split("."):
                                part = part.strip().lower()
                                if len(part) >= 8 and part in text:
                                    chk.violation("claimed_field_echoed_in_401", "a caller-controlled proof field appears in the 401 response", {**wit, "field": part[:80]})
                    else:
                        chk.case(f"{shape}->{want.step}")
                        chk.violation(f"require_unexpected_status:{resp.status}", "require mode answered neither 200 nor 401", {**wit, "body": resp.body[:200]})
                        continue
                    if gk == "reject" and gr == "?":
                        # status decided, reason unobservable without the log record
                        if want.kind == "ok":
                            _judge(chk, "require", want, gk, "unobserved", None, shape, wit, desync)
                        elif want.kind == "reject":
                            chk.case(f"{shape}->{want.step}")
                        else:
                            chk.skip(want.reason)
                        continue
                    _judge(chk, "require", want, gk, gr, got_claims if gk == "ok" else None, shape, wit, desync)
            if si == 0 and hist["index"] % 50 == 0:
                chk.sample({"config": base_wit["config"], "instances": instances, "shape": shape, "wall": clock.wall})
    finally:
        _proof.time = real_proof_time
        _replay.time = real_replay_time
        plog.handlers = old_handlers
        plog.propagate = old_prop
        plog.setLevel(old_level)


def _taint_if_expiry_boundary(model: Any, token: str, wall: int, mono: float) -> bool:
    """True when floor(now) - ts == skew for a parseable token of a known kid (the rounding of a fractional
    clock then decides expired/not).  The presentation is not judged; its nonce is tainted in the model because
    the real cache may or may not have remembered it."""
    parsed = model.parse([token])
    if not isinstance(parsed, tuple):
        return False
    kid, ts, nonce, _m = parsed
    if kid not in model.secrets or wall - int(ts) != model.skew:
        return False
    model.taint(nonce, mono)  # unknown whether remembered: verdicts depending on it are unjudged
    return True


def _judge(chk: Check, leg: str, want: Any, got_kind: str, got_reason: str, got_claims: Any, shape: str, wit: dict[str, Any], desync: set[str]) -> None:
    if leg in desync:
        # an earlier accept/reject disagreement on this leg left the real nonce cache and the model's history
        # different; later verdicts of this leg in this history would only repeat that one divergence
        chk.skip("after_accept_reject_divergence_in_same_history")
        return
    if want.kind == "unknown":
        chk.skip(want.reason)
        return
    chk.case(f"{shape}->{want.step}")
    chk.hit(f"model:{want.reason}")
    legk = "gate" if leg in ("allow", "require") else leg
    if want.kind != got_kind or want.reason != got_reason:
        chk.violation(
            f"reason_mismatch:{legk}:{want.step}:want={want.reason}:got={got_reason}",
            f"{leg}: table says {want.reason} (row {want.step}), implementation reported {got_reason}",
            {**wit, "leg": leg, "model": [want.kind, want.reason, want.step], "got": [got_kind, got_reason]},
        )
        if want.kind == "ok" or got_kind == "ok":
            desync.add(leg)
        return
    if want.kind == "ok" and got_claims is not None and dict(got_claims) != want.claims:
        chk.violation(
            f"claims_mismatch:{legk}",
            "a verified proof's claims differ from spec section 9",
            {**wit, "leg": leg, "want": want.claims, "got": dict(got_claims)},
        )


# ---------------------------------------------------------------------------
# mint / canonical / derive agreement with the spec (anchors name them)
# ---------------------------------------------------------------------------


def _mint_cases(chk: Check, rng: random.Random, n: int) -> None:
    from lib.models import proof_table as pt
    from vgi_rpc.http import _proof

    for _ in range(n):
        cfg = _gen_config(rng)
        kid = rng.choice(list(cfg["secrets"]))
        sec = bytes.fromhex(cfg["secrets"][kid][0])
        now = rng.choice([0, 1, 1_700_000_000, 10**19])
        nonce = _nonce(rng)
        chk.case(f"mint/{'big' if now > 2**40 else 'small'}")
        try:
            got = _proof.mint_proof(sec, kid, cfg["origin"], now=now, nonce=nonce)
            can = _proof.canonical_string(kid, str(now), nonce, cfg["origin"])
        except Exception as exc:  # noqa: BLE001
            chk.violation(f"mint_raised:{type(exc).__name__}", "mint_proof/canonical_string raised on valid inputs", {"kid": kid, "now": now, "exc": repr(exc)})
            continue
        chk.hit("mint_compared")
        if got != pt.mint(sec, kid, cfg["origin"], str(now), nonce):
            chk.violation("mint_differs_from_spec", "mint_proof output differs from the spec section 3/4 construction", {"kid": kid, "now": now, "got": got})
        if can != pt.canonical(kid, str(now), nonce, cfg["origin"]):
            chk.violation("canonical_string_differs_from_spec", "canonical_string differs from spec section 4", {"kid": kid, "got": can})
        base = rng.randbytes(32)
        pid = rng.choice(["proxy-1", "p.q:r/s", "x" * 255])
        try:
            d = _proof.derive_secret(base, pid, cfg["origin"])
        except Exception as exc:  # noqa: BLE001
            chk.violation(f"derive_raised:{type(exc).__name__}", "derive_secret raised on valid inputs", {"exc": repr(exc)})
            continue
        if d != pt.derive(base, pid, cfg["origin"]):
            chk.violation("derive_differs_from_spec", "derive_secret differs from spec section 5.1", {"proxy_id": pid})


# ---------------------------------------------------------------------------
# shard + main
# ---------------------------------------------------------------------------


def _directed_histories() -> list[dict[str, Any]]:
    """Small hand-shaped histories guaranteeing every table row, both window edges and the ordering pairs are present."""
    from lib.models import proof_table as pt

    out = []
    for skew in (1, 30):
        sec_a, sec_b = b"\x11" * 32, b"\x22" * 32
        cfg = {
            "secrets": {"prod-use1": [sec_a.hex(), "prod-use1"], "prod-use1-v2": [sec_b.hex(), "prod-use1"]},
            "origin": "conformance-origin",
            "skew": skew,
            "replay": True,
            "capacity": 100_000,
            "wall0": 1_700_000_000,
            "mono0": 100.0,
        }
        w = cfg["wall0"]
        n = ["N" * 21 + c for c in "ABCDEFGHIJKLMNOP"]

        def tok(kid: str, sec: bytes, ts: int, nonce: str, origin: str = "conformance-origin") -> str:
            return pt.mint(sec, kid, origin, str(ts), nonce)

        steps: list[tuple[int, float, list[str], str]] = [
            (0, 0.0, [tok("prod-use1", sec_a, w, n[0])], "valid"),
            (0, 0.0, [tok("prod-use1", sec_a, w, n[0])], "replay_same_second"),
            (0, 0.0, [tok("prod-use1-v2", sec_b, w, n[1])], "rotation_second_kid"),
            (0, 0.0, [tok("prod-use1-v2", sec_a, w, n[2])], "kid_secret_disagree"),
            (0, 0.0, [tok("prod-use1", sec_a, w - skew, n[3])], "age_eq_skew"),
            (0, 0.0, [tok("prod-use1", sec_a, w - skew - 1, n[4])], "age_eq_skew_plus_1"),
            (0, 0.0, [tok("prod-use1", sec_a, w + skew, n[5])], "future_eq_skew"),
            (0, 0.0, [tok("prod-use1", sec_a, w + skew + 1, n[6])], "future_eq_skew_plus_1"),
            (0, 0.0, [tok("nokey", sec_a, w - skew - 1, n[7])], "unknown_kid_and_expired"),
            (0, 0.0, [tok("prod-use1", sec_b, w - skew - 1, n[8])], "expired_and_bad_mac"),
            (0, 0.0, [tok("prod-use1", sec_b, w, n[0])], "bad_mac_and_replayed_nonce"),
            (0, 0.0, [tok("prod-use1", sec_b, w, n[9])], "bad_mac_fresh_nonce"),
            (0, 0.0, [tok("prod-use1", sec_a, w, n[9])], "good_with_nonce_of_rejected"),
            (0, 0.0, [tok("prod-use1", sec_a, w, n[10], origin="other-origin")], "cross_origin"),
            (0, 0.0, [""], "empty_value"),
            (0, 0.0, [], "absent"),
            (0, 0.0, [tok("prod-use1", sec_a, w, n[11]), tok("prod-use1", sec_a, w, n[12])], "two_instances"),
            (0, 0.0, [tok("prod-use1", sec_a, w, n[13])[:-1]], "mac_42"),
            (0, 0.0, [tok("prod-use1", sec_a, w, n[13]) + "A"], "mac_44"),
            (0, 0.0, [tok("prod-use1", sec_a, w, n[13]) + "\n"], "mac_newline"),
            (0, 0.0, [tok("nokey", sec_a, w, n[13]) + "\n"], "malformed_and_unknown_kid"),
            (2 * skew + 1, 2.0 * skew + 1, [tok("prod-use1", sec_a, w, n[0])], "old_token_after_window"),
            (0, 0.0, [tok("prod-use1", sec_a, w + 2 * skew + 1, n[0])], "nonce_reuse_after_window"),
        ]
        wall, mono = w, cfg["mono0"]
        hs = []
        for dw, dm, inst, label in steps:
            wall += dw
            mono += dm
            hs.append({"wall": wall, "mono": mono, "frac": 0.0, "instances": inst, "shape": f"directed/{label}", "nonce": None})
        out.append({"config": cfg, "steps": hs})
    return out


def _gen_history(rng: random.Random, nsteps: int) -> dict[str, Any]:
    from lib.models import proof_table as pt

    cfg = _gen_config(rng)
    st: dict[str, Any] = {"wall": cfg["wall0"], "mono": cfg["mono0"], "sent": [], "accepted_nonces": [], "rejected_nonces": []}
    # a private model run predicts which nonces get accepted, so that replays can be aimed
    model = pt.ProofModel(_secrets_of(cfg), cfg["origin"], cfg["skew"], replay_enabled=cfg["replay"], capacity=cfg["capacity"])
    steps = []
    for _ in range(nsteps):
        s = _gen_step(rng, cfg, st)
        s["wall"], s["mono"] = st["wall"], st["mono"]
        v = model.verify([_wsgi_value(x) for x in s["instances"]], st["wall"], st["mono"])
        if len(s["instances"]) == 1:
            st["sent"].append(s["instances"])
            st["sent"] = st["sent"][-8:]
        if s.get("nonce"):
            (st["accepted_nonces"] if v.kind == "ok" else st["rejected_nonces"]).append(s["nonce"])
        steps.append(s)
    return {"config": cfg, "steps": steps}


def run_shard(job: dict[str, Any]) -> dict[str, Any]:
    chk = Check(PID, job["tier"], job["seed"])
    rng = random.Random(job["seed"])
    hists: list[dict[str, Any]] = []
    if job.get("directed"):
        hists.extend(_directed_histories())
    for _ in range(job["histories"]):
        hists.append(_gen_history(rng, rng.choice(job["steps"])))
    for i, h in enumerate(hists):
        h["index"] = i
        if job.get("only_history") is not None and i != job["only_history"]:
            continue
        _run_history(chk, h, job)
    if job.get("mint"):
        _mint_cases(chk, random.Random(job["seed"] ^ 0xA11CE), job["mint"])
    chk.extra["histories"] = len(hists)
    return chk.to_result()


def _jobs(tier: str, seed: int) -> list[dict[str, Any]]:
    nsh = 16 if tier == "quick" else 96  # fixed: job seeds and history indices do not depend on the pool size
    total_hist = 1600 if tier == "quick" else 40_000
    per = max(1, total_hist // nsh)
    jobs = []
    for i in range(nsh):
        jobs.append(
            {
                "tier": tier,
                "seed": seed * 100_003 + i + 1,
                "histories": per,
                "steps": [6, 12, 20, 40],
                "directed": i == 0,
                "mint": 40 if i == 0 else 0,
            }
        )
    return jobs


def main(tier: str, seed: int) -> int:
    chk = Check(PID, tier, seed, level=CATEGORY, rule=RULE)
    need = ["mint_compared", "allow:claims_observed", "require:200", "require:401", "require:401_compared", "require:echo_scanned", "require:log_reason_observed"]
    for leg in ("direct", "defclock", "allow"):
        need += [f"{leg}:{r}" for r in REASONS if not (r == "no_proof" and leg in ("direct", "defclock"))]
        need.append(f"{leg}:ok")
    need += [f"model:{r}" for r in REASONS] + ["model:ok"]
    chk.require(*need)
    chk.assumptions = [
        "reference verifier lib/models/proof_table.py is a faithful reading of docs/proxy-proof-spec.md sections 3,4,6,9,10",
        "stdlib hmac/hashlib are correct",
        "clock control: now=/clock= parameters on the direct and allow legs; module-level `time` of _proof and _replay rebound on the defclock and (odd histories) require legs",
        "the gate's reason code in require mode is read from its log record (extra.proof_reason); the HTTP response is only required to be uniform",
        "x-request-id is excluded from the 401 byte-identity comparison (per-request correlation id, not derived from the proof)",
    ]
    for res in shard.pmap("checks.c22", "run_shard", _jobs(tier, seed), timeout=300 if tier == "quick" else 1500):
        chk.merge(res)
    chk.exhaustive["directed_table_rows_and_ordering_pairs"] = True
    chk.exhaustive["random_histories"] = False
    return chk.finish()


def replay(path: str) -> int:
    """Re-run the single history named by the first witness of a replay file."""
    with open(path) as fh:
        rp = json.load(fh)
    wit = rp["witnesses"][0]
    tier, seed = rp["tier"], rp["seed"]
    chk = Check(PID, tier, seed, level=CATEGORY, rule=RULE)
    for job in _jobs(tier, seed):
        if job["seed"] == wit.get("job_seed"):
            job["only_history"] = wit.get("history")
            chk.merge(run_shard(job))
    if rp["key"] not in chk.violations:
        chk.violations.clear()
        chk.inconclusive_because(f"replay did not reproduce {rp['key']}")
    return chk.finish()

"""C06 - methods run only with contract-conforming arguments.

For generated signatures a *valid* one-row request batch is built from the documented type
mapping (README "Supported types" / WIRE_PROTOCOL section 4) and then perturbed: renamed,
reordered, added, dropped, duplicated and retyped columns (including compatible widenings /
narrowings), nullability flips, nulls in every non-optional position, unknown enum members,
zero / two rows.  Every request is sent *raw*:

* over HTTP through the WSGI callable (lib.httpdrv) to the unary route and the stream-init route;
* over a pipe as hand-written Arrow IPC (``make_pipe_pair`` + ``RpcServer.serve`` in a thread).

Observation: the implementation's invocation log (did the method run, with which kwargs) and the
HTTP status / error marker or the socket error stream.  Oracle, from the perturbation applied:
conforming => dispatched exactly once with the expected kwargs; perturbed => zero dispatches and
HTTP 400 (sockets: an EXCEPTION batch); an exception raised *by the method* (TypeError,
ArrowInvalid, ...) => HTTP 200 + ``X-VGI-RPC-Error`` (sockets: an EXCEPTION batch), never 400.
Schema / field *metadata* differences are generated but only recorded (the contract ignores them).
"""

from __future__ import annotations

import os
import random
import select
import threading
import time
from typing import Any

from lib import shard
from lib.evidence import Check

PID = "C06"
ENGINE = "E1-svcgen-rig+E2-raw-drivers"
TECHNIQUE = "perturbation of valid request batches sent raw (WSGI, hand-written IPC); invocation log + status oracle"
LEVEL_TEXT = (
    "Exploration: for generated signatures (0-4 parameters over the supported annotation grammar, unary / producer / "
    "exchange, with and without headers) every single-point perturbation family of a valid request batch was sent raw "
    "over HTTP (unary and stream-init routes), over a pipe and routed through a shared-memory pointer batch (inline schema = request schema / = declared schema); the implementation's invocation log and the status / "
    "error stream were compared with the expectation derived from the perturbation. Held means no counterexample "
    "among the requests listed in the evidence."
)
LEVEL_NOTE = (
    "the declared contract (names, order, Arrow types, nullability) is computed from the documented type mapping and "
    "cross-checked against rpc_methods(); metadata-only differences are recorded, not judged"
)
CATEGORY = "exploration"
RULE = (
    "case = (route, method kind, perturbation family, Arrow type family of the touched column); perturbations: none, "
    "rename, swap, add, duplicate, drop (incl. defaulted), retype (widen / narrow / sibling type), nullability flip, "
    "null value (flagged nullable or not), unknown enum member, 0 rows, 2 rows, metadata-only; plus conforming "
    "requests to methods scripted to raise TypeError / ArrowInvalid / KeyError / ValueError"
)

ERR_HEADER = "X-VGI-RPC-Error"
PIPE_TIMEOUT = 30.0


# ---------------------------------------------------------------------------
# documented type mapping -> declared request schema
# ---------------------------------------------------------------------------


def arrow_of(spec: tuple[Any, ...]) -> Any:
    from lib.models import typemap

    return typemap.arrow_of(spec)


def declared_schema(params: list[tuple[Any, ...]]) -> Any:
    from lib.models import typemap

    return typemap.params_schema(params)


def wire_value(spec: tuple[Any, ...], v: Any) -> Any:
    """Documented serialization transforms (enum -> name, set -> list, dict -> pairs, dataclass -> IPC bytes)."""
    import enum

    if v is None:
        return None
    k = spec[0]
    if k == "opt":
        return wire_value(spec[1], v)
    if k == "enum":
        assert isinstance(v, enum.Enum)
        return v.name
    if k == "set":
        return list(v)
    if k == "dict":
        return list(v.items())
    if k == "dc":
        return v.serialize_to_bytes()
    return v


def tfamily(t: Any) -> str:
    import pyarrow as pa

    if pa.types.is_dictionary(t):
        return "dictionary"
    if pa.types.is_integer(t):
        return "int"
    if pa.types.is_floating(t):
        return "float"
    if pa.types.is_string(t) or pa.types.is_large_string(t):
        return "string"
    if pa.types.is_binary(t) or pa.types.is_large_binary(t):
        return "binary"
    if pa.types.is_boolean(t):
        return "bool"
    if pa.types.is_map(t):
        return "map"
    if pa.types.is_list(t) or pa.types.is_large_list(t):
        return "list"
    if pa.types.is_temporal(t):
        return "temporal"
    if pa.types.is_decimal(t):
        return "decimal"
    return str(t)


def retype_alternatives(t: Any) -> list[Any]:
    import pyarrow as pa

    if t == pa.int64():
        return [pa.int32(), pa.uint64(), pa.float64(), pa.int16()]
    if pa.types.is_integer(t):
        return [pa.int64(), pa.int32() if t != pa.int32() else pa.uint32()]
    if t == pa.float64():
        return [pa.float32(), pa.int64()]
    if t == pa.float32():
        return [pa.float64()]
    if t == pa.string():
        return [pa.large_string(), pa.binary()]
    if t == pa.large_string():
        return [pa.string()]
    if t == pa.binary():
        return [pa.large_binary(), pa.string()]
    if t == pa.large_binary():
        return [pa.binary()]
    if t == pa.bool_():
        return [pa.int8(), pa.uint8()]
    if pa.types.is_dictionary(t):
        return [pa.string(), pa.dictionary(pa.int32(), pa.string()), pa.dictionary(pa.int8(), pa.string()), pa.large_string()]
    if pa.types.is_list(t):
        alts = [pa.large_list(t.value_type)]
        alts.extend(pa.list_(a) for a in retype_alternatives(t.value_type)[:2])
        alts.append(pa.list_(t.value_field.with_nullable(False)))
        return alts
    if pa.types.is_map(t):
        alts = [pa.list_(pa.struct([pa.field("key", t.key_type, nullable=False), pa.field("value", t.item_type)]))]
        alts.extend(pa.map_(t.key_type, a) for a in retype_alternatives(t.item_type)[:1])
        return alts
    if pa.types.is_timestamp(t):
        return [pa.timestamp("ms", tz=t.tz), pa.timestamp(t.unit, tz=None if t.tz else "UTC"), pa.timestamp("ns", tz=t.tz)]
    if pa.types.is_date32(t):
        return [pa.date64()]
    if pa.types.is_time64(t):
        return [pa.time64("ns")]
    if pa.types.is_duration(t):
        return [pa.duration("ms"), pa.duration("ns")]
    if pa.types.is_decimal(t):
        return [pa.decimal128(t.precision + 2, t.scale), pa.decimal128(t.precision, t.scale + 1), pa.decimal256(t.precision, t.scale)]
    return []


# ---------------------------------------------------------------------------
# generation
# ---------------------------------------------------------------------------

RAISERS = ["TypeError", "ArrowInvalid", "KeyError", "ValueError"]


def _sendable(spec: tuple[Any, ...]) -> bool:
    k = spec[0]
    if k == "opt":
        return _sendable(spec[1])
    if k in ("list", "set"):
        return spec[1][0] not in ("enum", "dc", "opt")
    if k == "dict":
        return all(x[0] not in ("enum", "dc", "opt") for x in spec[1:3])
    return True


def gen_method(rng: random.Random, idx: int) -> dict[str, Any]:
    from lib import tygen

    kind = rng.choice(["unary", "unary", "producer", "exchange"])
    nparams = rng.choice([0, 1, 2, 2, 3, 4])
    params: list[tuple[Any, ...]] = []
    for j in range(nparams):
        spec = tygen.gen_spec(rng, 1)
        while not _sendable(spec):  # lists of enums: not promised as RPC parameters, the typed client cannot send them
            spec = tygen.gen_spec(rng, 1)
        if rng.random() < 0.3:
            params.append((f"p{j}", spec, True, tygen.gen_value(spec, rng)))
        else:
            params.append((f"p{j}", spec))
    params.sort(key=lambda p: len(p) > 2)
    m: dict[str, Any] = {"name": f"{kind[0]}{idx}", "kind": kind, "params": params, "raises": None}
    raiser = rng.choice(RAISERS) if rng.random() < 0.25 else None
    if kind == "unary":
        ret = rng.choice([None, ("int",), ("str",)])
        m["ret"] = ret
        if raiser:
            m["raises"] = ("call", raiser)
            m["u"] = {"logs": [], "act": ("raise", raiser, "raised by the method body")}
        else:
            m["u"] = {"logs": [], "act": ("return", None if ret is None else tygen.gen_value(ret, rng))}
        return m
    m["header"] = rng.random() < 0.4
    m["out_cols"] = ["i"]
    m["in_cols"] = ["i"]
    m["init"] = {"logs": [], "act": ("ok",)}
    m["steps"] = [{"logs": [], "act": "emit", "rows": 1}] if kind == "producer" else [{"logs": [], "act": "emit"}]
    if raiser:
        if kind == "producer" and rng.random() < 0.5:
            m["raises"] = ("first_step", raiser)
            m["steps"] = [{"logs": [], "act": "raise", "exc": (raiser, "raised by produce()")}]
        else:
            m["raises"] = ("call", raiser)
            m["init"] = {"logs": [], "act": ("raise", raiser, "raised by the init method body")}
    return m


def valid_request(m: dict[str, Any], rng: random.Random) -> tuple[Any, list[Any], dict[str, Any]]:
    """(declared schema, one-row arrays, python kwargs the implementation must receive)."""
    import pyarrow as pa

    from lib import tygen

    schema = declared_schema(m["params"])
    arrays = []
    kwargs: dict[str, Any] = {}
    for p, f in zip(m["params"], schema, strict=True):
        v = tygen.gen_value(p[1], rng)
        kwargs[p[0]] = v
        arrays.append(pa.array([wire_value(p[1], v)], type=f.type))
    return schema, arrays, kwargs


def perturbations(m: dict[str, Any], schema: Any, arrays: list[Any], rng: random.Random) -> list[dict[str, Any]]:
    """Single-point perturbations: dicts with label, family, schema, arrays|batch, verdict in {reject, accept, unjudged}."""
    import pyarrow as pa

    out: list[dict[str, Any]] = []
    n = len(schema)
    fields = list(schema)

    def add(label: str, fam: str, new_fields: list[Any], new_arrays: list[Any], verdict: str = "reject", **kw: Any) -> None:
        out.append({"label": label, "family": fam, "fields": new_fields, "arrays": new_arrays, "verdict": verdict, **kw})

    for i in range(n):
        f, a, p = fields[i], arrays[i], m["params"][i]
        fam = tfamily(f.type)
        # rename
        for nn in rng.sample([f.name + "x", f.name.upper(), " " + f.name, "ctx", ""], 2):
            nf = list(fields)
            nf[i] = pa.field(nn, f.type, nullable=f.nullable)
            add(f"rename:{'ctx' if nn == 'ctx' else 'other'}", fam, nf, arrays)
        # drop
        add("drop:defaulted" if len(p) > 2 else "drop:required", fam, fields[:i] + fields[i + 1 :], arrays[:i] + arrays[i + 1 :])
        # duplicate
        add("duplicate", fam, [*fields, f], [*arrays, a])
        # retype
        for alt in retype_alternatives(f.type):
            try:
                na = a.cast(alt)
            except Exception:  # noqa: BLE001 - not every alternative is castable for every value
                try:
                    na = pa.array(a.to_pylist(), type=alt)
                except Exception:  # noqa: BLE001
                    continue
            nf = list(fields)
            nf[i] = pa.field(f.name, alt, nullable=f.nullable)
            na2 = list(arrays)
            na2[i] = na
            add(f"retype:{fam}->{tfamily(alt) if tfamily(alt) != fam else 'sibling'}", fam, nf, na2)
        if (pa.types.is_timestamp(f.type) or pa.types.is_time64(f.type) or pa.types.is_duration(f.type)) and a.null_count == 0:
            # same instant at nanosecond resolution with a sub-microsecond remainder (valid Arrow, other type)
            if pa.types.is_timestamp(f.type):
                ns_t: Any = pa.timestamp("ns", tz=f.type.tz)
            elif pa.types.is_time64(f.type):
                ns_t = pa.time64("ns")
            else:
                ns_t = pa.duration("ns")
            raw = a.cast(pa.int64())[0].as_py()
            if abs(raw) < 2**52:
                nf = list(fields)
                nf[i] = pa.field(f.name, ns_t, nullable=f.nullable)
                na2 = list(arrays)
                na2[i] = pa.array([raw * 1000 + 1], type=pa.int64()).cast(ns_t)
                add("retype:temporal->ns_subus", fam, nf, na2)
        # nullability flip (value unchanged)
        nf = list(fields)
        nf[i] = f.with_nullable(not f.nullable)
        if f.nullable and a.null_count:
            pass  # a null under a non-nullable flag is the next family
        else:
            add("nullability:" + ("to_nonnull" if f.nullable else "to_nullable"), fam, nf, arrays)
        # null value
        nulls = pa.nulls(1, type=f.type)
        na2 = list(arrays)
        na2[i] = nulls
        if f.nullable:
            add("null:optional_param", fam, fields, na2, verdict="accept", null_param=f.name)
        else:
            add("null:flagged_nonnull", fam, fields, na2)
            add("null:flagged_nullable", fam, nf, na2)
        # unknown enum member
        if pa.types.is_dictionary(f.type) and p[1][0] in ("enum", "opt"):
            from lib import tygen

            espec = p[1][1] if p[1][0] == "opt" else p[1]
            if espec[0] == "enum":
                en = tygen.ENUMS[espec[1]]
                member = rng.choice(list(en))
                for bad, lab in (("NOT_A_MEMBER", "unknown"), (member.name.lower(), "lowercase"), (str(member.value), "value_not_name")):
                    if bad in en.__members__:
                        continue
                    na3 = list(arrays)
                    na3[i] = pa.array([bad], type=pa.string()).cast(f.type)
                    add(f"enum:{lab}", fam, fields, na3)
        # dataclass parameter: the column is a binary holding the instance as an Arrow IPC stream (one row)
        dspec = p[1][1] if p[1][0] == "opt" else p[1]
        if dspec[0] == "dc" and pa.types.is_binary(f.type) and a.null_count == 0:
            import io

            from pyarrow import ipc

            raw = a[0].as_py()
            try:
                inner = ipc.open_stream(io.BytesIO(raw)).read_all().to_batches()[0]
            except Exception:  # noqa: BLE001
                inner = None
            variants: list[tuple[str, bytes]] = [("truncated", raw[: max(8, len(raw) // 2)]), ("garbage", bytes(rng.randrange(256) for _ in range(40))), ("empty", b"")]
            if inner is not None:

                def ser(batches: list[Any], schema: Any) -> bytes:
                    sink = io.BytesIO()
                    with ipc.new_stream(sink, schema) as w_:
                        for b_ in batches:
                            w_.write_batch(b_)
                    return sink.getvalue()

                variants += [
                    ("zero_rows", ser([inner.slice(0, 0)], inner.schema)),
                    ("no_batch", ser([], inner.schema)),
                    ("two_rows", ser([pa.concat_batches([inner, inner])], inner.schema)),
                ]
                if inner.num_columns >= 1:
                    less = inner.drop_columns([inner.schema.names[0]])
                    variants.append(("missing_field", ser([less], less.schema)))
            for lab, blob in variants:
                na3 = list(arrays)
                na3[i] = pa.array([blob], type=f.type)
                add(f"dc:{lab}", fam, fields, na3)
        # metadata only (contract ignores it)
        nf2 = list(fields)
        nf2[i] = f.with_metadata({b"verif": b"1"})
        add("metadata:field", fam, nf2, arrays, verdict="unjudged")
    # swap two columns
    if n >= 2:
        i, j = rng.sample(range(n), 2)
        nf = list(fields)
        na = list(arrays)
        nf[i], nf[j] = nf[j], nf[i]
        na[i], na[j] = na[j], na[i]
        same = fields[i].equals(fields[j]) and fields[i].name == fields[j].name
        add("swap", "multi", nf, na, verdict="accept" if same else "reject")
    # add an extra column
    extra_name = rng.choice(["extra", "ctx", "self", "p9"])
    add(f"add:{'ctx' if extra_name == 'ctx' else 'other'}", "int", [*fields, pa.field(extra_name, pa.int64())], [*arrays, pa.array([1], type=pa.int64())])
    if n >= 1:
        # row count
        add("rows:0", "multi", fields, [x.slice(0, 0) for x in arrays])
        add("rows:2", "multi", fields, [pa.concat_arrays([x, x]) for x in arrays])
        add("metadata:schema", "multi", fields, arrays, verdict="unjudged", schema_md={b"verif": b"1"})
    return out


def build_body(method: str, fields: list[Any], arrays: list[Any], schema_md: dict[bytes, bytes] | None = None) -> bytes:
    import pyarrow as pa

    from lib import httpdrv

    schema = pa.schema(fields, metadata=schema_md)
    if len(fields) == 0:
        batch = pa.RecordBatch.from_pydict({}, schema=schema)
    else:
        batch = pa.RecordBatch.from_arrays(arrays, schema=schema)
    batch.validate(full=True)  # keep C06 to *well-formed* Arrow; malformed data is C05 / C15 territory
    return httpdrv.ipc_bytes(batch, {b"vgi_rpc.method": method.encode(), b"vgi_rpc.request_version": b"1"})


def build_shm_body(seg: Any, method: str, fields: list[Any], arrays: list[Any], inline_fields: list[Any], schema_md: dict[bytes, bytes] | None = None) -> bytes | None:
    """The same request routed through a client-owned shared-memory segment.

    The real columns are written into ``seg`` the way a client does (``allocate_and_write``); the inline
    request batch is the 0-row pointer batch carrying offset / length / segment name.  ``inline_fields`` is the
    schema of that pointer batch: the request's own, or (a client that builds pointer batches from the
    declared schema) the declared one.  Returns None when the batch does not fit the segment.
    """
    import pyarrow as pa

    from lib import httpdrv

    schema = pa.schema(fields, metadata=schema_md)
    batch = pa.RecordBatch.from_pydict({}, schema=schema) if len(fields) == 0 else pa.RecordBatch.from_arrays(arrays, schema=schema)
    batch.validate(full=True)
    got = seg.allocate_and_write(batch)
    if got is None:
        return None
    ischema = pa.schema(inline_fields, metadata=schema_md)
    inline = pa.RecordBatch.from_arrays([pa.nulls(0, type=f.type) for f in ischema], schema=ischema)
    md = {
        b"vgi_rpc.method": method.encode(),
        b"vgi_rpc.request_version": b"1",
        b"vgi_rpc.shm_offset": str(got[0]).encode(),
        b"vgi_rpc.shm_length": str(got[1]).encode(),
        b"vgi_rpc.shm_segment_name": seg.name.encode(),
        b"vgi_rpc.shm_segment_size": str(seg.size).encode(),
    }
    return httpdrv.ipc_bytes(inline, md)


# ---------------------------------------------------------------------------
# drivers
# ---------------------------------------------------------------------------


class _Watchdog(Exception):
    pass


def _on_alarm(signum: int, frame: Any) -> None:
    raise _Watchdog()


def pipe_call(server: Any, body: bytes, *, stream: bool, tick: bool = False) -> dict[str, Any]:
    """One request on a fresh pipe pair served by the real ``RpcServer.serve``; returns every byte the server wrote.

    The request (plus, for stream methods, an empty input stream so that an accepted call terminates
    cleanly, with one tick for producers) is written first and the client's write end closed; ``serve`` then runs on the server
    transport and ends when it meets EOF.  Requests and replies here are far below the pipe capacity
    (enlarged to 1 MiB), so ``serve`` can run in the calling thread - a thread per request costs ~10 ms
    of scheduling latency on a loaded machine.  Larger requests fall back to a serve thread.
    """
    import fcntl
    import signal

    import pyarrow as pa
    from pyarrow import ipc

    from vgi_rpc.rpc import make_pipe_pair

    ct, st = make_pipe_pair()
    for f in (ct.reader, st.reader):
        try:
            fcntl.fcntl(f.fileno(), 1031, 1 << 20)  # F_SETPIPE_SZ
        except OSError:
            pass
    payload = body
    if stream:
        sink = pa.BufferOutputStream()
        with ipc.new_stream(sink, pa.schema([])) as w:
            if tick:  # one producer tick so that produce() runs once
                w.write_batch(pa.RecordBatch.from_pydict({}, schema=pa.schema([])))
        payload = body + sink.getvalue().to_pybytes()
    died: list[BaseException] = []
    timed_out = False

    def run() -> None:
        try:
            server.serve(st)
        except _Watchdog:
            raise
        except BaseException as exc:  # noqa: BLE001
            died.append(exc)
        finally:
            try:
                st.close()
            except Exception:  # noqa: BLE001
                pass

    th = None
    if len(payload) < 512 * 1024:
        ct.writer.write(payload)
        ct.writer.close()
        old = signal.signal(signal.SIGALRM, _on_alarm)
        signal.setitimer(signal.ITIMER_REAL, PIPE_TIMEOUT)
        try:
            run()
        except _Watchdog:
            timed_out = True
        finally:
            signal.setitimer(signal.ITIMER_REAL, 0)
            signal.signal(signal.SIGALRM, old)
    else:
        th = threading.Thread(target=run, daemon=True)
        th.start()
        ct.writer.write(payload)
        ct.writer.close()
    fd = ct.reader.fileno()
    buf = bytearray()
    deadline = time.monotonic() + PIPE_TIMEOUT
    while not timed_out:
        remaining = deadline - time.monotonic()
        r, _, _ = select.select([fd], [], [], max(remaining, 0))
        if not r:
            timed_out = True
            break
        chunk = os.read(fd, 1 << 16)
        if not chunk:
            break
        buf += chunk
    try:
        ct.reader.close()
    except Exception:  # noqa: BLE001
        pass
    if th is not None:
        th.join(5)
    return {"bytes": bytes(buf), "died": died[0] if died else None, "timed_out": timed_out}


def first_error(streams: list[list[tuple[Any, dict[str, bytes]]]]) -> dict[str, Any] | None:
    from lib import httpdrv

    for s in streams:
        e = httpdrv.error_of(s)
        if e is not None:
            return e
    return None


# ---------------------------------------------------------------------------
# shard
# ---------------------------------------------------------------------------


def run_shard(job: dict[str, Any]) -> dict[str, Any]:
    import warnings

    warnings.filterwarnings("ignore")
    import logging

    logging.disable(logging.CRITICAL)

    from lib import httpdrv, svcgen, tygen
    from vgi_rpc.http import make_wsgi_app
    from vgi_rpc.rpc import RpcServer, rpc_methods

    from vgi_rpc.shm import ShmSegment, _has_dictionary_columns

    chk = Check(PID, job["tier"], job["seed"])
    rng = random.Random(job["seed"])
    seg = ShmSegment.create(1 << 20)
    for pi in range(job["programs"]):
        methods = [gen_method(rng, job["base"] + pi * 10 + k) for k in range(job["methods"])]
        program = {"name": f"Svc{job['base'] + pi}", "methods": methods}
        proto, impl = svcgen.build(program)
        server = RpcServer(proto, impl)
        app = make_wsgi_app(server, token_key=b"k" * 32)
        infos = rpc_methods(proto)
        for m in methods:
            name = m["name"]
            declared = declared_schema(m["params"])
            if not infos[name].params_schema.equals(declared):
                chk.violation(
                    "declared_schema_differs_from_documented_mapping",
                    "rpc_methods() parameter schema differs from the documented type mapping",
                    {"params": [(p[0], tygen.src(p[1])) for p in m["params"]], "library": str(infos[name].params_schema), "documented": str(declared)},
                )
                continue
            schema, arrays, kwargs = valid_request(m, rng)
            cases = [{"label": "none", "family": "none", "fields": list(schema), "arrays": arrays, "verdict": "accept"}]
            perts = perturbations(m, schema, arrays, rng)
            if len(perts) > job["max_perts"]:
                perts = rng.sample(perts, job["max_perts"])
            cases.extend(perts)
            is_stream = m["kind"] != "unary"
            path = f"/{name}/init" if is_stream else f"/{name}"
            tag = "init" if is_stream else "unary"
            for c in cases:
                try:
                    body = build_body(name, c["fields"], c["arrays"], c.get("schema_md"))
                except Exception as exc:  # noqa: BLE001 - pyarrow refused to build the perturbed batch
                    chk.skip(f"unbuildable:{c['label']}:{type(exc).__name__}")
                    continue
                exp_kwargs = dict(kwargs)
                if c.get("null_param"):
                    exp_kwargs[c["null_param"]] = None
                for route in ("http", "pipe", "shm", "shmdecl"):
                    n0 = len(impl.inv)
                    if route in ("shm", "shmdecl"):
                        # pipe transport, the request batch routed through a client-owned shared-memory segment
                        if len(c["fields"]) == 0:
                            continue  # nothing to route: is_shm_pointer_batch needs columns to be worth a pointer
                        import pyarrow as pa

                        inline_fields = c["fields"] if route == "shm" else list(declared)
                        if route == "shmdecl" and (c["label"] == "none" or _has_dictionary_columns(pa.schema(c["fields"])) or _has_dictionary_columns(declared)):
                            continue  # identical to "shm" / dictionary payloads are decoded with the inline schema
                        seg.reset()
                        try:
                            sbody = build_shm_body(seg, name, c["fields"], c["arrays"], inline_fields, c.get("schema_md"))
                        except Exception as exc:  # noqa: BLE001
                            chk.skip(f"unbuildable_shm:{c['label']}:{type(exc).__name__}")
                            continue
                        if sbody is None:
                            chk.skip("shm_segment_too_small")
                            continue
                    if route == "http":
                        resp = httpdrv.call(app, "POST", path, {"Content-Type": httpdrv.ARROW_CT}, body)
                        obs: dict[str, Any] = {"status": resp.status, "marker": resp.header(ERR_HEADER), "exc": repr(resp.exc) if resp.exc else None}
                        try:
                            streams = httpdrv.parse_ipc_multi(resp.decoded_body()) if resp.header("content-type") == httpdrv.ARROW_CT else []
                            err = first_error(streams)
                        except Exception as exc:  # noqa: BLE001
                            err = {"type": "unparseable_body", "message": str(exc)[:100]}
                    else:
                        pr = pipe_call(server, body if route == "pipe" else sbody, stream=is_stream, tick=(m["kind"] == "producer"))
                        obs = {"timed_out": pr["timed_out"], "died": repr(pr["died"]) if pr["died"] else None, "nbytes": len(pr["bytes"])}
                        try:
                            streams = httpdrv.parse_ipc_multi(pr["bytes"]) if pr["bytes"] else []
                            # after the reply the server reads the next request, meets EOF and writes one more
                            # (error) stream: only the streams answering *this* request are judged
                            own = 1
                            if is_stream and streams and first_error(streams[:1]) is None:
                                own = 2 if m.get("header") else 1
                            obs["streams"] = len(streams)
                            err = first_error(streams[:own])
                        except Exception as exc:  # noqa: BLE001
                            err = {"type": "unparseable_response", "message": str(exc)[:100]}
                        if pr["timed_out"]:
                            chk.inconclusive_because("pipe driver watchdog fired")
                            continue
                    ran = [e for e in impl.inv[n0:] if e[0] == tag and e[1] == name]
                    obs["error"] = None if err is None else {"type": err.get("type"), "message": (err.get("message") or "")[:160]}
                    obs["dispatches"] = len(ran)
                    judge(chk, route, m, c, exp_kwargs, ran, obs, tygen)
    return chk.to_result()


def judge(chk: Check, route: str, m: dict[str, Any], c: dict[str, Any], exp_kwargs: dict[str, Any], ran: list[Any], obs: dict[str, Any], tygen: Any) -> None:
    kindtag = f"{route}:{'unary' if m['kind'] == 'unary' else 'init'}"
    wit = {
        "route": kindtag,
        "method_kind": m["kind"],
        "params": [(p[0], tygen.src(p[1]), "default" if len(p) > 2 else "") for p in m["params"]],
        "perturbation": c["label"],
        "request_schema": [f"{f.name}: {f.type}{'' if f.nullable else ' not null'}" for f in c["fields"]],
        "observed": obs,
        "method_raises": m["raises"],
    }
    label, fam = c["label"], c["family"]
    if c["verdict"] == "unjudged":
        chk.skip(f"{label}:{'dispatched' if ran else 'refused'}")
        return
    cls = f"{kindtag}:{m['kind']}:{label}:{fam}"
    chk.case(cls)
    if c["verdict"] == "reject":
        chk.hit(f"perturbed_judged:{route}")
        if ran:
            chk.violation(
                f"dispatched_nonconforming:{label}:{kindtag}",
                "the method ran for a request that does not match its declared parameter contract",
                {**wit, "server_kwargs": ran[0][2]},
            )
            return
        if route == "http":
            if obs["status"] != 400:
                chk.violation(
                    f"nonconforming_not_400:{label}:status{obs['status']}{'+marker' if obs['marker'] else ''}",
                    "a non-conforming request was refused, but not with HTTP 400",
                    wit,
                )
        elif obs["error"] is None:
            chk.violation(
                f"nonconforming_no_error_stream:{label}:pipe",
                "a non-conforming request on a socket transport was not answered with an error stream",
                wit,
            )
        return
    # conforming request
    chk.hit(f"conforming_judged:{route}")
    if len(ran) != 1:
        chk.violation(
            f"conforming_refused:{label}:{kindtag}" if not ran else f"conforming_dispatched_{len(ran)}x:{kindtag}",
            f"a conforming request was dispatched {len(ran)} times",
            wit,
        )
        return
    got = ran[0][2]
    if set(got) != set(exp_kwargs) or not all(tygen.veq(got[k], v) for k, v in exp_kwargs.items()):
        chk.violation(f"conforming_wrong_kwargs:{kindtag}", "the implementation received kwargs different from the request", {**wit, "server_kwargs": got, "expected": exp_kwargs})
    raises = m["raises"]
    if raises is not None:
        chk.hit(f"method_raised_judged:{route}")
        chk.case(f"{kindtag}:{m['kind']}:method_raises:{raises[0]}:{raises[1]}")
        if route == "http":
            if obs["status"] == 400 or not (obs["status"] == 200 and obs["marker"] == "true"):
                chk.violation(
                    f"method_error_misreported:{raises[1]}:{kindtag}:{raises[0]}:status{obs['status']}{'+marker' if obs['marker'] else ''}",
                    "an exception raised by the method itself was not reported as HTTP 200 + X-VGI-RPC-Error",
                    wit,
                )
            elif obs["error"] is None or obs["error"]["type"] not in (raises[1], "ArrowInvalid" if raises[1] == "ArrowInvalid" else raises[1]):
                chk.violation(f"method_error_wrong_type:{raises[1]}:{kindtag}", "the error batch does not carry the method's exception type", wit)
        elif obs["error"] is None:
            chk.violation(f"method_error_not_delivered:{raises[1]}:{kindtag}:{raises[0]}", "a method-raised exception produced no error batch on the socket", wit)
    else:
        if route == "http" and (obs["status"] != 200 or obs["marker"]):
            chk.violation(f"conforming_bad_status:{kindtag}:status{obs['status']}", "a conforming request to a well-behaved method did not get a plain 200", wit)
        if obs["error"] is not None:
            chk.violation(f"conforming_error_stream:{kindtag}:{obs['error']['type']}", "a conforming request to a well-behaved method was answered with an error batch", wit)
    if chk.rng.random() < 0.02:
        chk.sample(wit)


def main(tier: str, seed: int) -> int:
    chk = Check(PID, tier, seed, level=CATEGORY, rule=RULE)
    chk.require(
        "perturbed_judged:http",
        "perturbed_judged:pipe",
        "conforming_judged:http",
        "conforming_judged:pipe",
        "method_raised_judged:http",
        "method_raised_judged:pipe",
        "perturbed_judged:shm",
        "perturbed_judged:shmdecl",
        "conforming_judged:shm",
    )
    chk.assumptions = [
        "the documented type mapping (README / WIRE_PROTOCOL section 4) is the declared contract; it is cross-checked against rpc_methods()",
        "schema / field metadata differences are outside the contract (recorded only)",
        "swapping two identically named and typed columns is not generated (names are unique)",
    ]
    nsh = shard.ncpu()
    if tier == "quick":
        nshards, programs, methods, max_perts = max(nsh, 8), 3, 4, 40
    else:
        nshards, programs, methods, max_perts = max(nsh * 2, 16), 40, 4, 80
    jobs = [
        {"tier": tier, "seed": seed * 100003 + i * 7919 + 5, "base": i * 10000, "programs": programs, "methods": methods, "max_perts": max_perts}
        for i in range(nshards)
    ]
    for res in shard.pmap("checks.c06", "run_shard", jobs, timeout=600 if tier == "quick" else 2400):
        chk.merge(res)
    chk.exhaustive["single_point_perturbation_families_per_generated_signature"] = False
    return chk.finish()


def replay(path: str) -> int:
    """Re-execute the recorded (tier, seed) and report whether the recorded mechanism key fires again.

    Generation is a pure function of the seed, so the witness case is regenerated exactly; 1 = fired again,
    2 = diverged (reported as inconclusive / flaky), never 0.
    """
    import json
    import os

    from lib import evidence

    with open(path) as fh:
        rec = json.load(fh)
    main(rec["tier"], int(rec["seed"]))
    with open(os.path.join(evidence.EVIDENCE_DIR, f"{PID}.json")) as fh:
        cov = json.load(fh)["coverage"]
    fired = rec["key"] in cov.get("unlisted_violation_keys", []) or rec["key"] in cov.get("known_findings_seen", [])
    print(f"REPLAY property={PID} key={rec['key']} {'fired again' if fired else 'DIVERGED (inconclusive)'}")
    return 1 if fired else 2

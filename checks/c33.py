"""C33 - launcher spawns once; threaded socket workers never vanish under a client.

*Accept-loop leg.*  The real ``serve_unix(threaded=True, idle_timeout=...)`` runs in a
thread with the module-level ``threading`` of ``_transport.py`` rebound to a
pass-through copy whose ``Timer`` is manual: the harness fires the idle / startup
timer callback at chosen points of a scripted scenario (connect, call, close,
fire, fire a just-cancelled timer, let the accept loop poll, ...), including -
through a ``sys.monitoring`` LINE hook - in the window between ``accept()``
returning and the connection being counted.  Seeded micro-delays are injected at
the lines of the accept loop / handler.  Oracle (client side): whenever some
client holds a connection on which a call has completed (so it was accepted), a
fresh probe client must be able to connect **and complete an echo call**, and the
socket path must exist.

*Launcher leg.*  N real processes call ``vgi_rpc.launcher.launch`` for the same
worker command at the same instant, with seeded line-level delays injected into
``launcher.py``; the worker is a tiny stub that records start/end in an
O_APPEND log.  Oracle: exactly one stub started while one is alive, every launch
returned the same path, and a connect() right after launch returned succeeded.
A second command launched concurrently exercises the opportunistic GC.
"""

from __future__ import annotations

import random
from typing import Any

from lib import shard
from lib.evidence import Check

PID = "C33"
ENGINE = "E4-injection"
TECHNIQUE = "scripted timer firing + sys.monitoring delay/fault injection on the real accept loop; real multi-process launcher races with an append-only spawn log"
LEVEL_TEXT = (
    "Exploration (stress-sampled, not enumerated): every scripted timer placement relative to connect / first call / "
    "close / accept-loop poll (incl. between accept() and the connection count update) under several delay seeds, and "
    "repeated N-process launcher races with injected line delays, plus a wedged worker (listening, not accepting, backlog full) followed by another launch. Held = a probe call always completed while an accepted "
    "connection was open, and never more than one live worker per command."
)
LEVEL_NOTE = "threading.Timer in _transport.py replaced by a manually fired timer (its callback is the real one); flock (filelock) and the kernel are trusted; launcher schedules are sampled by delay injection"
RULE = "accept leg: case = (scenario, delay seed), class = scenario; launcher leg: case = (nprocs, delay_us, with_gc, seed), class = (nprocs, delay bucket, with_gc)"

PROBE_WATCHDOG_S = 6.0

# scenario steps: ("connect", X) ("call", X) ("close", X) ("fire",) ("fire_stale",) ("poll",) ("probe",)
#                 ("fire_on_next_accept",)  -> timer fires between accept() returning and conn_count += 1
SCENARIOS: dict[str, list[tuple[str, ...]]] = {
    "fire_at_zero_then_connect_in_poll_window": [("fire",), ("connect", "B"), ("call", "B"), ("poll",), ("probe",), ("call", "B"), ("poll",), ("probe",)],
    "fire_while_connected": [("connect", "A"), ("call", "A"), ("fire",), ("poll",), ("probe",), ("call", "A")],
    "fire_between_accept_and_count": [("fire_on_next_accept",), ("connect", "A"), ("call", "A"), ("poll",), ("probe",), ("call", "A"), ("poll",), ("probe",)],
    "stale_timer_fires_after_reconnect": [("connect", "A"), ("call", "A"), ("close", "A"), ("poll",), ("connect", "B"), ("call", "B"), ("fire_stale",), ("poll",), ("probe",), ("call", "B")],
    "idle_rearm_then_new_connection": [("connect", "A"), ("call", "A"), ("close", "A"), ("poll",), ("probe",), ("connect", "B"), ("call", "B"), ("poll",), ("probe",)],
    "fire_after_close_then_connect_in_window": [("connect", "A"), ("call", "A"), ("close", "A"), ("settle",), ("fire",), ("connect", "B"), ("call", "B"), ("poll",), ("probe",), ("call", "B")],
    "two_clients_one_closes_then_fire": [("connect", "A"), ("call", "A"), ("connect", "B"), ("call", "B"), ("close", "A"), ("settle",), ("fire",), ("poll",), ("probe",), ("call", "B")],
    "no_fire_baseline": [("connect", "A"), ("call", "A"), ("probe",), ("close", "A"), ("poll",), ("probe",)],
    "fire_at_zero_legit_shutdown": [("connect", "A"), ("call", "A"), ("close", "A"), ("settle",), ("fire",), ("poll",), ("probe_may_fail",)],
}
# the timer callback runs k statements after accept() handed over a connection (k = 0 is the statement
# right after accept; larger k land between / after the loop's bookkeeping blocks)
for _k in range(0, 12):
    SCENARIOS[f"fire_{_k}_statements_after_accept"] = [("fire_after_accept", str(_k)), ("connect", "A"), ("call", "A"), ("poll",), ("probe",), ("call", "A"), ("poll",), ("probe",)]


class _ManualTimer:
    registry: list[_ManualTimer] = []

    def __init__(self, interval: float, function: Any, args: Any = None, kwargs: Any = None) -> None:
        self.interval = interval
        self.function = function
        self.cancelled = False
        self.started = False
        self.fired = False
        self.daemon = True
        _ManualTimer.registry.append(self)

    def start(self) -> None:
        self.started = True

    def cancel(self) -> None:
        self.cancelled = True

    def fire(self) -> None:
        self.fired = True
        self.function()


def _run_scenario(name: str, steps: list[tuple[str, ...]], seed: int) -> dict[str, Any]:
    import linecache
    import os
    import socket
    import sys
    import tempfile
    import threading
    import time
    import types

    import vgi_rpc.rpc._transport as tr
    from lib import svcgen
    from vgi_rpc.rpc import RpcConnection, RpcServer, UnixTransport

    out: dict[str, Any] = {"violations": [], "events": [], "inconclusive": [], "hits": {}}

    def hit(k: str) -> None:
        out["hits"][k] = out["hits"].get(k, 0) + 1

    # -- manual timer shim -------------------------------------------------------------------
    shim = types.ModuleType("threading_passthrough")
    shim.__dict__.update({k: v for k, v in threading.__dict__.items() if not k.startswith("__")})
    _ManualTimer.registry = []
    shim.Timer = _ManualTimer  # type: ignore[attr-defined]
    tr.threading = shim  # type: ignore[attr-defined]

    # -- delay / fault injection ---------------------------------------------------------------
    rng = random.Random(seed)
    flags: dict[str, Any] = {"fire_on_next_accept": False, "fire_after_accept": None, "since_accept": None}
    mon = sys.monitoring
    try:
        mon.use_tool_id(4, "verif-c33")
    except ValueError:
        pass
    target = tr.__file__
    funcs = {"_serve_socket_threaded", "_handle", "_close_listener_if_idle", "_arm_timer_locked", "_cancel_timer_locked"}

    def on_line(code: Any, lineno: int) -> Any:
        if code.co_filename != target:
            return mon.DISABLE
        if code.co_name not in funcs:
            return None
        if flags["fire_on_next_accept"] and code.co_name == "_serve_socket_threaded":
            text = linecache.getline(target, lineno)
            if "settimeout(None)" in text:
                flags["fire_on_next_accept"] = False
                live = [t for t in _ManualTimer.registry if t.started and not t.cancelled and not t.fired]
                if live:
                    out["events"].append("timer fired between accept() and count update")
                    hit("fired_between_accept_and_count")
                    fired_at_zero_ever[0] = True
                    live[-1].fire()
        if flags["fire_after_accept"] is not None and code.co_name == "_serve_socket_threaded":
            text = linecache.getline(target, lineno)
            if "settimeout(None)" in text:
                flags["since_accept"] = 0
            elif flags["since_accept"] is not None:
                flags["since_accept"] += 1
            if flags["since_accept"] is not None and flags["since_accept"] == flags["fire_after_accept"]:
                flags["fire_after_accept"] = None
                flags["since_accept"] = None
                cand = [t for t in _ManualTimer.registry if t.started and not t.cancelled and not t.fired]
                if not cand:  # already cancelled by the loop: the timer thread had passed its cancel check
                    cand = [t for t in _ManualTimer.registry if t.started and t.cancelled and not t.fired]
                if cand:
                    out["events"].append(f"timer fired at accept-loop line {lineno}: {text.strip()[:50]}")
                    hit("fired_inside_accept_bookkeeping")
                    fired_at_zero_ever[0] = True
                    # a timer callback runs on its own thread: fired from here (the accept thread may be
                    # holding the loop's state lock) it must be able to wait for that lock
                    threading.Thread(target=cand[-1].fire, daemon=True).start()
                    time.sleep(0.01)
        if rng.random() < 0.3:
            time.sleep(rng.random() * 0.002)
        return None

    mon.register_callback(4, mon.events.LINE, on_line)
    mon.set_events(4, mon.events.LINE)
    mon.restart_events()

    program = {
        "name": "AccSvc",
        "methods": [{"name": "echo", "kind": "unary", "params": [("nonce", ("str",))], "ret": ("str",), "u": {"logs": [], "act": ("echo", "nonce")}}],
        "calls": [],
    }
    proto, impl = svcgen.build(program)
    server = RpcServer(proto, impl)
    td = tempfile.mkdtemp(prefix="verif-c33-")
    path = os.path.join(td, "s.sock")
    bound = threading.Event()
    srv_done = threading.Event()

    def serve() -> None:
        try:
            tr.serve_unix(server, path, threaded=True, idle_timeout=30.0, on_bound=lambda p: bound.set())
        except Exception as exc:  # noqa: BLE001
            out["events"].append(f"serve_unix raised {exc!r}")
        finally:
            srv_done.set()

    th = threading.Thread(target=serve, daemon=True)
    th.start()
    if not bound.wait(10):
        out["inconclusive"].append("server did not bind")
        return out

    clients: dict[str, Any] = {}
    established: set[str] = set()
    may_stop = False  # a timer fired while no accepted connection existed
    fired_at_zero_ever = [False]

    def connect(x: str) -> None:
        s = socket.socket(socket.AF_UNIX, socket.SOCK_STREAM)
        s.settimeout(PROBE_WATCHDOG_S)
        s.connect(path)
        t = UnixTransport(s)
        clients[x] = (s, t, RpcConnection(proto, t).__enter__())

    def call(x: str, nonce: str) -> Any:
        return clients[x][2].echo(nonce=nonce)

    def probe() -> tuple[bool, str]:
        s = socket.socket(socket.AF_UNIX, socket.SOCK_STREAM)
        s.settimeout(PROBE_WATCHDOG_S)
        try:
            s.connect(path)
        except OSError as exc:
            s.close()
            return False, f"connect failed: {exc!r}"
        t = UnixTransport(s)
        try:
            p = RpcConnection(proto, t).__enter__()
            r = p.echo(nonce="probe")
            return (r == "probe"), f"echo returned {r!r}"
        except Exception as exc:  # noqa: BLE001
            return False, f"call failed: {type(exc).__name__}: {exc}"
        finally:
            try:
                t.close()
            except Exception:  # noqa: BLE001
                pass

    try:
        for i, st in enumerate(steps):
            op = st[0]
            out["events"].append(" ".join(st))
            if op == "connect":
                try:
                    connect(st[1])
                except OSError as exc:
                    if established and not may_stop:
                        out["violations"].append((f"connect_refused_while_connection_open:{name}", f"connect failed: {exc!r}"))
                    else:
                        out["events"].append(f"connect failed (server may have stopped legitimately): {exc!r}")
                    break
            elif op == "call":
                try:
                    r = call(st[1], f"n{i}")
                    if r != f"n{i}":
                        out["violations"].append((f"wrong_echo:{name}", f"got {r!r}"))
                    if st[1] not in established:
                        established.add(st[1])
                        may_stop = False  # the loop accepted a connection after any earlier fire
                    hit("client_call_ok")
                except Exception as exc:  # noqa: BLE001
                    if st[1] in established:
                        out["violations"].append((f"established_connection_failed:{name}", f"{type(exc).__name__}: {exc}"))
                    elif may_stop:
                        out["events"].append(f"call on a never-accepted connection failed after a legitimate stop: {exc!r}")
                    else:
                        out["violations"].append((f"accepted_connection_never_served:{name}", f"{type(exc).__name__}: {exc}"))
                    break
            elif op == "close":
                s, t, _p = clients.pop(st[1])
                established.discard(st[1])
                t.close()
            elif op == "settle":
                time.sleep(0.15)  # let the handler thread finish conn_count -= 1 and re-arm the idle timer
            elif op == "poll":
                time.sleep(0.75)  # longer than the accept loop's 0.5 s poll
            elif op == "fire":
                live = []
                for _ in range(40):  # the startup-grace timer is armed just after bind
                    live = [t for t in _ManualTimer.registry if t.started and not t.cancelled and not t.fired]
                    if live:
                        break
                    time.sleep(0.05)
                if not live:
                    # connections are open, so the timer was cancelled: fire the cancelled one
                    # (a threading.Timer whose thread already passed its cancel check still runs)
                    live = [t for t in _ManualTimer.registry if t.started and t.cancelled and not t.fired]
                    if live:
                        hit("stale_timer_fired")
                if not live:
                    out["events"].append("no armed timer to fire")
                    out["inconclusive"].append(f"{name}: no armed timer at step {i}")
                    break
                if not established:
                    may_stop = True
                    fired_at_zero_ever[0] = True
                hit("timer_fired")
                live[-1].fire()
            elif op == "fire_stale":
                stale = [t for t in _ManualTimer.registry if t.started and t.cancelled and not t.fired]
                if not stale:
                    out["inconclusive"].append(f"{name}: no cancelled timer at step {i}")
                    break
                hit("stale_timer_fired")
                stale[-1].fire()
            elif op == "fire_on_next_accept":
                flags["fire_on_next_accept"] = True
            elif op == "fire_after_accept":
                flags["fire_after_accept"] = int(st[1])
            elif op in ("probe", "probe_may_fail"):
                ok, why = probe()
                exists = os.path.exists(path)
                hit("probe_run")
                if established:
                    if not ok:
                        mech = "connection_accepted_after_idle_timer_fired" if fired_at_zero_ever[0] else "no_timer_fired_at_zero"
                        out["violations"].append(
                            (f"stopped_accepting_while_connection_served:{mech}", f"probe failed ({why}) while {sorted(established)} hold accepted connections")
                        )
                    elif not exists:
                        out["violations"].append((f"socket_path_vanished_while_connection_served:{name}", "socket path removed"))
                    else:
                        hit("probe_ok_while_connected")
                elif not may_stop:
                    if not ok:
                        out["violations"].append((f"stopped_accepting_before_idle_timeout:{name}", f"probe failed ({why}) although no idle timer fired at zero connections"))
                    else:
                        hit("probe_ok_idle")
                else:
                    hit("probe_after_legit_fire_ok" if ok else "probe_after_legit_fire_refused")
    finally:
        mon.set_events(4, 0)
        mon.register_callback(4, mon.events.LINE, None)
        try:
            mon.free_tool_id(4)
        except ValueError:
            pass
        for x in list(clients):
            try:
                clients[x][1].close()
            except Exception:  # noqa: BLE001
                pass
        # stop the server: fire whatever timer is armed once all clients are gone
        time.sleep(0.1)
        for _ in range(3):
            live = [t for t in _ManualTimer.registry if t.started and not t.cancelled and not t.fired]
            if live:
                live[-1].fire()
            if srv_done.wait(1.2):
                break
        out["server_stopped"] = srv_done.is_set()
        import shutil

        shutil.rmtree(td, ignore_errors=True)
    return out


def run_accept_shard(job: dict[str, Any]) -> dict[str, Any]:
    chk = Check(PID, job["tier"], job["seed"])
    for name, seed in job["cases"]:
        res = _run_scenario(name, SCENARIOS[name], seed)
        chk.case(f"accept|{name}")
        for k, n in res["hits"].items():
            chk.hit(k, n)
        for r in res["inconclusive"]:
            chk.inconclusive_because(r)
        for key, what in res["violations"]:
            chk.violation(key, what, {"scenario": name, "steps": SCENARIOS[name], "seed": seed, "events": res["events"]})
        if len(chk.samples) < 2:
            chk.sample({"scenario": name, "seed": seed, "events": res["events"]})
    return chk.to_result()


def _wedged_worker_scenario(chk: Check, child: str, seed: int) -> None:
    """A worker that keeps its listening socket but stopped accepting, its backlog full: the next launch must still
    return the path of a worker that accepts."""
    import json
    import os
    import shutil
    import socket
    import subprocess
    import sys
    import tempfile
    import time

    td = tempfile.mkdtemp(prefix="verif-c33w-")
    held: list[socket.socket] = []
    try:
        spawnlog = os.path.join(td, "spawn.log")
        env = dict(os.environ)
        env.update({"VERIF_SPAWNLOG": spawnlog, "VERIF_STUB_LIFE": "9.0", "VERIF_STUB_WEDGE_AFTER": "1.5", "VERIF_STUB_BACKLOG": "2", "PYTHONHASHSEED": "0"})
        state = os.path.join(td, "state")
        os.makedirs(state)
        worker = [sys.executable, child, "stub"]

        def launch_once(k: int) -> dict[str, Any]:
            argv = [sys.executable, child, "launch", state, str(seed * 100 + k), "0", "0", *worker]
            p = subprocess.run(argv, env=env, capture_output=True, cwd=td, timeout=60)
            try:
                return json.loads(p.stdout.decode(errors="replace").strip().splitlines()[-1])
            except Exception:  # noqa: BLE001
                return {"error": f"unparseable output: {p.stdout[-200:]!r} {p.stderr[-300:]!r}"}

        first = launch_once(0)
        chk.case("launcher|wedged_worker_with_full_backlog")
        if "error" in first or not first.get("connect_ok"):
            chk.inconclusive_because(f"wedge scenario: first launch did not give an accepting worker: {first}")
            return
        path = first["path"]
        deadline = time.time() + 8
        while time.time() < deadline and not any(ln.startswith("wedged ") for ln in (open(spawnlog).read().splitlines() if os.path.exists(spawnlog) else [])):
            time.sleep(0.1)
        # fill the accept backlog of the wedged worker
        full = False
        for _ in range(64):
            c = socket.socket(socket.AF_UNIX, socket.SOCK_STREAM)
            c.setblocking(False)
            try:
                c.connect(path)
                held.append(c)
            except BlockingIOError:
                held.append(c)
                full = True
                break
            except OSError:
                c.close()
                break
        if not full:
            chk.skip("wedge_scenario_backlog_not_filled")
            return
        chk.hit("wedged_backlog_filled")
        second = launch_once(1)
        log = open(spawnlog).read().splitlines() if os.path.exists(spawnlog) else []
        wit = {"first": first, "second": second, "spawnlog": log}
        chk.hit("launch_after_wedge_judged")
        if "error" in second:
            chk.violation("launch_failed:wedged_worker", "launch() raised although a fresh worker could have been spawned", wit)
        elif not second.get("connect_ok"):
            chk.violation("returned_path_not_accepting:wedged_worker_full_backlog", "launch() returned the path of a worker that was not accepting: a connect right after it returned did not succeed", wit)
    except subprocess.TimeoutExpired:
        chk.inconclusive_because("wedge scenario: a launcher process did not finish within 60 s")
    finally:
        for c in held:
            c.close()
        subprocess.run(["pkill", "-f", f"{td}/state"], check=False)
        shutil.rmtree(td, ignore_errors=True)


def run_launcher_shard(job: dict[str, Any]) -> dict[str, Any]:
    import json
    import os
    import shutil
    import subprocess
    import sys
    import tempfile
    import time

    chk = Check(PID, job["tier"], job["seed"])
    root = os.path.dirname(os.path.dirname(os.path.abspath(__file__)))
    child = os.path.join(root, "lib", "child.py")
    if job.get("wedge"):
        _wedged_worker_scenario(chk, child, job["seed"])
    for race in job["races"]:
        nprocs, delay_us, with_gc, seed = race["nprocs"], race["delay_us"], race["with_gc"], race["seed"]
        cls = f"launcher|n{nprocs}|d{'0' if delay_us == 0 else ('lo' if delay_us < 3000 else 'hi')}|gc{int(with_gc)}"
        td = tempfile.mkdtemp(prefix="verif-c33l-")
        try:
            spawnlog = os.path.join(td, "spawn.log")
            env = dict(os.environ)
            env["VERIF_SPAWNLOG"] = spawnlog
            env["VERIF_STUB_LIFE"] = "6.0"
            env["PYTHONHASHSEED"] = "0"
            state = os.path.join(td, "state")
            os.makedirs(state)
            start_at = time.time() + 0.6
            worker = [sys.executable, child, "stub"]
            procs = []
            for i in range(nprocs):
                argv = [sys.executable, child, "launch", state, str(seed * 100 + i), str(delay_us), f"{start_at:.6f}", *worker]
                procs.append(subprocess.Popen(argv, env=env, stdout=subprocess.PIPE, stderr=subprocess.PIPE, cwd=td))
            if with_gc:
                argv = [sys.executable, child, "launch", state, str(seed * 100 + 77), str(delay_us), f"{start_at:.6f}", *worker, "other-cmd"]
                procs.append(subprocess.Popen(argv, env=env, stdout=subprocess.PIPE, stderr=subprocess.PIPE, cwd=td))
            outs = []
            hung = False
            for p in procs:
                try:
                    so, se = p.communicate(timeout=60)
                except subprocess.TimeoutExpired:
                    p.kill()
                    hung = True
                    continue
                line = so.decode(errors="replace").strip().splitlines()[-1:] or [""]
                try:
                    outs.append(json.loads(line[0]))
                except Exception:  # noqa: BLE001
                    outs.append({"error": f"unparseable output: {so[-200:]!r} {se[-300:]!r}"})
            chk.case(cls)
            if hung:
                chk.inconclusive_because("a launcher process did not finish within 60 s")
                continue
            log = open(spawnlog).read().splitlines() if os.path.exists(spawnlog) else []
            main = outs[:nprocs]
            wit = {"race": race, "outs": outs, "spawnlog": log}
            errs = [o for o in main if "error" in o]
            if errs:
                chk.violation("launch_failed", "launch() raised for a concurrent caller", wit)
                continue
            paths = {o.get("path") for o in main}
            if len(paths) != 1:
                chk.violation("different_paths_for_same_command", "concurrent launches of one command returned different socket paths", wit)
            main_path = next(iter(paths))
            starts = [ln.split() for ln in log if ln.startswith("start ") and ln.split()[3] == main_path]
            ends = {ln.split()[1]: float(ln.split()[2]) for ln in log if ln.startswith("end ") and ln.split()[3] == main_path}
            chk.hit("launch_returned", len(main))
            chk.hit("spawn_log_lines", len(log))
            # lifetimes [start, end) of the workers of this command; a worker without an end line is still alive
            lives = sorted((float(sp[2]), ends.get(sp[1], float("inf")), sp[1]) for sp in starts)
            overlapping = [(a, b) for i, a in enumerate(lives) for b in lives[i + 1 :] if b[0] < a[1]]
            if len(starts) == 0:
                chk.violation("no_worker_spawned", "launch returned but no worker ever started", wit)
            elif overlapping:
                chk.violation("double_spawn", f"a worker was spawned for a command while another worker for it was alive ({len(starts)} spawns)", {**wit, "overlapping": overlapping[:2]})
            else:
                chk.hit("single_spawn")
                if len(starts) > 1:
                    chk.hit("respawn_after_previous_worker_exited")
            bad = [o for o in main if not o.get("connect_ok")]
            if bad:
                chk.violation("returned_path_not_accepting", "connect() right after launch() returned failed", wit)
            if len(chk.samples) < 2:
                chk.sample({"race": race, "spawnlog": log, "outs": outs[:2]})
        finally:
            # stubs exit by themselves after VERIF_STUB_LIFE; make sure nothing is left
            time.sleep(0.05)
            subprocess.run(["pkill", "-f", f"{td}/state"], check=False)
            shutil.rmtree(td, ignore_errors=True)
    return chk.to_result()


def main(tier: str, seed: int) -> int:
    import concurrent.futures as cf

    chk = Check(PID, tier, seed, rule=RULE)
    chk.require("timer_fired", "stale_timer_fired", "fired_between_accept_and_count", "fired_inside_accept_bookkeeping", "probe_ok_while_connected", "single_spawn", "launch_returned", "launch_after_wedge_judged")
    quick = tier == "quick"
    nseeds = 2 if quick else 20
    cases = [(name, seed * 1000 + k) for name in SCENARIOS for k in range(nseeds)]
    n = shard.ncpu()
    ajobs = [{"tier": tier, "seed": seed, "cases": sh} for sh in shard.split(cases, n)]
    rng = random.Random(seed)
    races = []
    for k in range(8 if quick else 120):
        races.append({"nprocs": rng.choice([2, 3, 4, 4]), "delay_us": rng.choice([0, 500, 2000, 8000]), "with_gc": rng.random() < 0.4, "seed": seed * 1000 + k})
    ljobs = [{"tier": tier, "seed": seed, "races": sh} for sh in shard.split(races, max(2, n // 4))]
    for k in range(1 if quick else 3):
        ljobs[k % len(ljobs)] = {**ljobs[k % len(ljobs)], "wedge": True, "seed": seed + k}
    with cf.ThreadPoolExecutor(max_workers=2) as ex:
        f1 = ex.submit(shard.pmap, "checks.c33", "run_accept_shard", ajobs, timeout=600 if quick else 1700)
        f2 = ex.submit(shard.pmap, "checks.c33", "run_launcher_shard", ljobs, timeout=600 if quick else 1700, workers=max(2, n // 4))
        for res in f1.result() + f2.result():
            chk.merge(res)
    chk.assumptions = [
        "a client is 'holding an accepted connection' once one call on it has completed",
        "after a timer fired with no accepted connection the server may legitimately stop accepting; probes are then not judged until a new connection is accepted and served",
    ]
    return chk.finish()

"""C31 - external fetches are bounded, validated and credential-safe.

The real ``vgi_rpc.external_fetch.fetch_url`` is pointed at two scripted loopback origins
(``lib/origin.py``): A, which the configured validator allows, and B, which it rejects (other
port); the validator also rejects ``/deny...`` paths, any host other than ``127.0.0.1`` and any
scheme other than http.  Every case is one logical fetch against one *object script* drawn from a
fault grammar (redirect chains per request kind, HEAD answers, lying / missing Content-Length,
ignored / short / long / shifted / endless range answers, slow or failing chunks, mid-body
resets, pre-response disconnects, wrong or unknown Content-Encoding, decompression bombs) over
HEAD-probe and pre-signed (range-probe) URL shapes, with FetchConfig thresholds shrunk so KiB
objects take the parallel / hedged path.

Monitors
  origin log           every request the origins received (method, target, Host, Range)
  validator wrapper    every URL the validator saw and its verdict
  StreamReader hook    bytes actually consumed from aiohttp response bodies (``_read_nowait_chunk``)
  decompress hook      ``max_output_size`` passed to / bytes returned by ``vgi_rpc._codec.decompress``
  attempt hook         invocations of ``_fetch_with_probe`` (the documented single stale-connection retry)
  log handler          records of the ``vgi_rpc`` loggers
Events (violations)
  a request reached an origin for a URL the validator rejected or never accepted;
  a request carries redirect hop index > max_redirects (the hop index travels in the query);
  bytes consumed > attempts * (max_fetch_bytes + one 64 KiB read) + sentinels + hedge duplicates;
  decompress called without a cap / with a larger cap than configured, or output above the cap;
  an endless body was read to the origin's 32 MiB hard limit;
  returned bytes differ from the object's decoded bytes;
  a planted userinfo / query / fragment canary appears in the exception chain or a log record.
"""

from __future__ import annotations

import contextlib
import gzip
import logging
import random
import threading
import time
import traceback
from typing import Any
from urllib.parse import urlsplit

from lib import shard
from lib.evidence import Check

PID = "C31"
ENGINE = "E4-injection"
TECHNIQUE = "scripted loopback origins (fault grammar) + validator/byte/decompress/log monitors around the real fetch_url"
LEVEL_TEXT = (
    "Fault enumeration: the real fetch_url ran against scripted loopback origins for every single-fault object script "
    "of the grammar (each fault x HEAD-probe / pre-signed URL x single-GET / parallel path) plus seeded random "
    "combinations of 2-4 faults; monitors at the origins, the validator, the aiohttp stream reader, the decompressor "
    "and the vgi_rpc loggers judged each fetch; the scripts include redirects served only after 1-3 dropped connections and unframed bodies cut half way. Held means none of the listed events in those executions."
)
LEVEL_NOTE = "aiohttp/yarl trusted to put on the wire the URL they were given; zstandard/gzip used as independent decoders; hedging is timing dependent (observed count reported)"
CATEGORY = "fault_enumeration"
RULE = (
    "case = (URL shape, FetchConfig, object script, validator flavour); systematic list: every fault kind once per "
    "probe mode and path, then seeded random scripts combining faults; distinct class = (probe mode, path taken, "
    "redirect shape, fault kinds, outcome)"
)

CAN_USER = "uSeRcAnArY"
CAN_PASS = "pAsScAnArY"
CAN_QKEY = "KcAnArYk"
CAN_QVAL = "QvAlCaNaRy"
CAN_SIG = "SiGcAnArY"
CAN_CRED = "CrEdCaNaRy"
CAN_FRAG = "FrAgCaNaRy"
CAN_RKEY = "RkEyCaNaRy"
CAN_RVAL = "RvAlCaNaRy"
CANARIES = {
    "userinfo": [CAN_USER, CAN_PASS],
    "query": [CAN_QKEY, CAN_QVAL, CAN_SIG, CAN_CRED, CAN_RKEY, CAN_RVAL],
    "fragment": [CAN_FRAG],
}

READ_CHUNK = 65536
HARD_LIMIT = 32 << 20


# ---------------------------------------------------------------------------
# case generation
# ---------------------------------------------------------------------------


def _base_case(idx: int) -> dict[str, Any]:
    return {
        "id": idx,
        "url": {"userinfo": idx % 3 == 0, "presigned": None},
        "cfg": {
            "max_redirects": 2,
            "max_fetch_bytes": 1 << 20,
            "max_decompressed_bytes": None,
            "parallel_threshold_bytes": 1 << 30,
            "chunk_size_bytes": 4096,
            "max_parallel_requests": 4,
            "timeout_seconds": 4.0,
            "speculative_retry_multiplier": 2.0,
            "max_speculative_hedges": 4,
        },
        "body": {"size": 5000, "fill": "rand", "codec": None},
        "obj": {},
        "validator": "silent",
        "faults": [],
    }


def _parallel(c: dict[str, Any], chunk: int = 4096, par: int = 4) -> None:
    c["cfg"]["parallel_threshold_bytes"] = 1024
    c["cfg"]["chunk_size_bytes"] = chunk
    c["cfg"]["max_parallel_requests"] = par
    if c["body"]["size"] < 3 * chunk:
        c["body"]["size"] = 5 * chunk + 123
    c["want_parallel"] = True


def _presign(c: dict[str, Any], kind: str = "sigv4") -> None:
    c["url"]["presigned"] = kind
    c["obj"].setdefault("probe", {"mode": "range"})


REDIRECT_LASTS = ["next", "relative", "absolute", "forbidden_origin", "forbidden_host", "forbidden_path", "file", "ftp", "invalid", "nolocation", "empty"]


def systematic_cases() -> list[dict[str, Any]]:
    """Every fault kind once per probe mode (HEAD / pre-signed) and path (single GET / parallel)."""
    out: list[dict[str, Any]] = []

    def add(faults: list[str], fn: Any, *, modes: tuple[str, ...] = ("head", "presigned"), paths: tuple[str, ...] = ("single", "parallel")) -> None:
        for mode in modes:
            for path in paths:
                c = _base_case(len(out))
                if path == "parallel":
                    _parallel(c)
                if mode == "presigned":
                    _presign(c, ("sigv4", "gcs", "sigv2")[len(out) % 3])
                c["faults"] = list(faults)
                fn(c, mode, path)
                out.append(c)

    add(["honest"], lambda c, m, p: None)
    for codec in ("zstd", "gzip"):
        add([f"honest_{codec}"], lambda c, m, p, codec=codec: c["body"].update(codec=codec))
    for size in (0, 1, 1023, 1024, 4096, 65535, 65536, 65537, 200_000):
        add([f"size_{size}"], lambda c, m, p, size=size: c["body"].update(size=size), paths=("single",))
        if size >= 1024:
            add([f"size_{size}"], lambda c, m, p, size=size: (c["body"].update(size=size), c["cfg"].update(parallel_threshold_bytes=1024, chunk_size_bytes=1000)), paths=("single",))
    # -- redirects ---------------------------------------------------------
    for kind in ("HEAD", "GET", "RANGE", "PROBE"):
        for n, last in (
            [(1, lst) for lst in REDIRECT_LASTS]
            + [(2, "next"), (2, "forbidden_origin"), (3, "next"), (3, "forbidden_path"), ("endless", "next"), ("selfloop", "next")]
        ):
            modes = ("presigned",) if kind == "PROBE" else ("head",) if kind == "HEAD" else ("head", "presigned")
            paths = ("parallel",) if kind == "RANGE" else ("single",) if kind == "GET" else ("single", "parallel")

            def fn(c: dict[str, Any], m: str, p: str, kind: str = kind, n: Any = n, last: str = last) -> None:
                c["obj"]["redirect"] = {kind: {"n": n, "last": last, "status": (301, 302, 303, 307, 308)[c["id"] % 5], "secret": f"{CAN_RKEY}={CAN_RVAL}"}}

            add([f"redirect_{kind}_{n}_{last}"], fn, modes=modes, paths=paths)
    # a redirect that is only served after the connection was dropped k times (reconnect / retry paths of the client)
    for k in (1, 2, 3):
        for dm in ("fin", True):
            for last in ("forbidden_origin", "forbidden_path", "next"):

                def fn1b(c: dict[str, Any], m: str, p: str, k: int = k, dm: Any = dm, last: str = last) -> None:
                    kind = "HEAD" if m == "head" else ("GET" if p == "single" else "RANGE")
                    c["obj"]["redirect"] = {kind: {"after_drops": k, "drop_mode": dm, "n": 1, "last": last, "secret": f"{CAN_RKEY}={CAN_RVAL}"}}

                add([f"redirect_after_{k}_drops_{'fin' if dm == 'fin' else 'rst'}_{last}"], fn1b)
    for mr in (0, 1, 5):
        for n in (mr, mr + 1):
            if n == 0:
                continue

            def fn2(c: dict[str, Any], m: str, p: str, mr: int = mr, n: int = n) -> None:
                c["cfg"]["max_redirects"] = mr
                kind = "GET" if p == "single" else "RANGE"
                c["obj"]["redirect"] = {kind: {"n": n, "last": "next", "secret": f"{CAN_RKEY}={CAN_RVAL}"}, "HEAD": {"n": n, "last": "next"}}

            add([f"redirect_bound_mr{mr}_n{n}"], fn2, modes=("head",))
    # -- HEAD answers --------------------------------------------------------
    for st in (403, 405, 501, 404, 500):
        add([f"head_status_{st}"], lambda c, m, p, st=st: c["obj"].update(head={"status": st}), modes=("head",))
    add(["head_drop"], lambda c, m, p: c["obj"].update(head={"drop": True}), modes=("head",))
    for cl in ("absent", "garbage", "short", "long", "over_cap", "zero", "negative"):

        def fn3(c: dict[str, Any], m: str, p: str, cl: str = cl) -> None:
            size = c["body"]["size"]
            v: Any = {"short": max(1025, size // 2), "long": size * 2, "over_cap": c["cfg"]["max_fetch_bytes"] + 1, "zero": 0, "negative": -5}.get(cl, cl)
            c["obj"]["head"] = {"cl": v}

        add([f"head_cl_{cl}"], fn3, modes=("head",))
    for ar in ("none", None, "BYTES", "bytes, other"):
        add([f"head_ar_{ar}"], lambda c, m, p, ar=ar: c["obj"].update(head={"ar": ar}), modes=("head",))
    # -- plain GET answers ------------------------------------------------------
    for st in (403, 404, 500, 204, 300, 304):
        add([f"get_status_{st}"], lambda c, m, p, st=st: c["obj"].update(get={"status": st}), paths=("single",))
    for ln in ("none", "chunked", "lie_short", "lie_long"):

        def fn4(c: dict[str, Any], m: str, p: str, ln: str = ln) -> None:
            size = c["body"]["size"]
            c["obj"]["get"] = {"length": {"lie_short": size // 2, "lie_long": size + 100}.get(ln, ln)}

        add([f"get_length_{ln}"], fn4, paths=("single",))
    add(["get_abort_mid_body"], lambda c, m, p: c["obj"].update(get={"abort_at": c["body"]["size"] // 2}), paths=("single",))
    # a body delimited only by connection close, cut half way: the cut reads like the end of the body
    add(["get_abort_mid_body", "get_length_none"], lambda c, m, p: c["obj"].update(get={"length": "none", "abort_at": c["body"]["size"] // 2}), paths=("single",))
    add(["get_abort_mid_body", "get_length_none", "size_5000"], lambda c, m, p: (c["body"].update(size=5000), c["obj"].update(get={"length": "none", "abort_at": 2500})), paths=("single",))
    add(["get_drop_first"], lambda c, m, p: c["obj"].update(get={"drop_first": 1}), paths=("single",))
    add(["get_drop_first_fin"], lambda c, m, p: c["obj"].update(get={"drop_first": 1, "drop_mode": "fin"}), paths=("single",))
    add(["get_drop_always_fin"], lambda c, m, p: c["obj"].update(get={"drop_first": 99, "drop_mode": "fin"}), paths=("single",))
    add(["head_drop_fin_once"], lambda c, m, p: c["obj"].update(head={"drop": "fin", "drop_first": 1}), modes=("head",))
    add(["head_drop_fin"], lambda c, m, p: c["obj"].update(head={"drop": "fin"}), modes=("head",))
    add(["get_drop_always"], lambda c, m, p: c["obj"].update(get={"drop_first": 99}), paths=("single",))
    add(["get_endless"], lambda c, m, p: (c["obj"].update(get={"endless": HARD_LIMIT}), c["cfg"].update(max_fetch_bytes=100_000)), paths=("single",))
    add(["get_endless_chunked"], lambda c, m, p: (c["obj"].update(get={"endless": HARD_LIMIT, "length": "chunked"}), c["cfg"].update(max_fetch_bytes=70_000)), paths=("single",))
    for rel in (-1, 0, 1):

        def fn5(c: dict[str, Any], m: str, p: str, rel: int = rel) -> None:
            c["body"]["size"] = 150_000
            c["cfg"]["max_fetch_bytes"] = 150_000 + rel
            if p == "parallel":
                c["cfg"]["chunk_size_bytes"] = 40_000

        add([f"cap_rel_{rel}"], fn5)
        add([f"cap_rel_{rel}_nolength"], lambda c, m, p, rel=rel: (fn5(c, m, p, rel), c["obj"].update(head={"cl": "absent"}, get={"length": "chunked"})), paths=("single",))
    # -- content encodings ------------------------------------------------------
    for ce in ("wrong_codec", "plain_but_named", "encoded_but_absent", "br", "gzip, zstd", "GZIP", " zstd ;q=1", "identity", "x-gzip"):

        def fn6(c: dict[str, Any], m: str, p: str, ce: str = ce) -> None:
            if ce == "wrong_codec":
                c["body"]["codec"] = "zstd"
                c["obj"]["ce_override"] = "gzip"
            elif ce == "plain_but_named":
                c["obj"]["ce_override"] = "zstd"
            elif ce == "encoded_but_absent":
                c["body"]["codec"] = "zstd"
                c["obj"]["ce_override"] = ""
            elif ce in ("GZIP", "x-gzip"):
                c["body"]["codec"] = "gzip"
                c["obj"]["ce_override"] = ce
            elif ce in (" zstd ;q=1",):
                c["body"]["codec"] = "zstd"
                c["obj"]["ce_override"] = ce
            else:
                c["obj"]["ce_override"] = ce

        add([f"ce_{ce.strip().replace(' ', '')}"], fn6)
    add(["ce_head_only"], lambda c, m, p: (c["body"].update(codec="zstd"), c["obj"].update(get={"ce": None})), modes=("head",), paths=("single",))
    add(["ce_get_only"], lambda c, m, p: (c["body"].update(codec="gzip"), c["obj"].update(head={"ce": None})), modes=("head",), paths=("single",))
    for codec in ("zstd", "gzip"):
        for cap in ("small", "exact", "minus1", "default16x"):

            def fn7(c: dict[str, Any], m: str, p: str, codec: str = codec, cap: str = cap) -> None:
                plain = 3 << 20
                c["body"].update(size=plain, fill="zeros", codec=codec)
                c["cfg"]["max_fetch_bytes"] = 100_000
                c["cfg"]["max_decompressed_bytes"] = {"small": 65536, "exact": plain, "minus1": plain - 1, "default16x": None}[cap]
                if p == "parallel":
                    c["cfg"]["chunk_size_bytes"] = 1024 if codec == "gzip" else 64

            add([f"bomb_{codec}_{cap}"], fn7, modes=("head",))
    # -- range answers -----------------------------------------------------------
    for mode in ("ignore", "short", "long", "endless", "shift_honest", "shift_lying", "no_cr", "416", "500", "total_lie"):
        add([f"range_{mode}"], lambda c, m, p, mode=mode: c["obj"].update(range={"mode": mode}), paths=("parallel",))
    add(["range_fail_first"], lambda c, m, p: c["obj"].update(range={"fail_first": [4096]}), paths=("parallel",))
    add(["range_abort_first"], lambda c, m, p: c["obj"].update(range={"abort_first": [4096]}), paths=("parallel",))
    for hedges, mult in ((4, 2.0), (1, 2.0), (0, 2.0), (4, 0.0)):

        def fn8(c: dict[str, Any], m: str, p: str, hedges: int = hedges, mult: float = mult) -> None:
            c["body"]["size"] = 12 * 4096
            c["cfg"].update(max_parallel_requests=8, max_speculative_hedges=hedges, speculative_retry_multiplier=mult)
            c["obj"]["range"] = {"slow": {"0": 0.9, "8192": 0.25, "16384": 0.35}}
            c["slow"] = True

        add([f"hedge_h{hedges}_m{mult}"], fn8, paths=("parallel",))
    # the original request for a chunk is slow and every hedge for it fails while the original is still pending
    for hedges in (4, 5):
        add(
            [f"hedge_h{hedges}_hedges_fail"],
            lambda c, m, p, hedges=hedges: (fn8(c, m, p, hedges, 2.0), c["obj"]["range"].update(slow={"0": 1.6, "8192": 0.25, "16384": 0.45, "24576": 0.65, "32768": 0.85}, fail_later=[0])),
            paths=("parallel",),
            modes=("head",),
        )
    add(["hedge_slow_then_fail"], lambda c, m, p: (fn8(c, m, p), c["obj"]["range"].update(fail_first=[8192])), paths=("parallel",), modes=("head",))
    add(["stall_timeout"], lambda c, m, p: (c["cfg"].update(timeout_seconds=0.4), c["obj"].update(get={"pre_delay": 1.2}), c.update(slow=True)), paths=("single",), modes=("head",))
    # -- pre-signed probe answers -------------------------------------------------
    for mode in ("200", "403", "405", "500", "404", "206_no_cr", "206_bad_cr", "206_long", "206_total_lie"):

        def fn9(c: dict[str, Any], m: str, p: str, mode: str = mode) -> None:
            c["obj"]["probe"] = {"mode": mode}
            if mode == "206_total_lie":
                c["obj"]["probe"]["total"] = max(1025, c["body"]["size"] // 2)

        add([f"probe_{mode}"], fn9, modes=("presigned",))
    # -- validator flavours ---------------------------------------------------------
    for v in ("echo", "components", "none", "reject_initial_silent", "reject_initial_echo"):

        def fn10(c: dict[str, Any], m: str, p: str, v: str = v) -> None:
            c["validator"] = v
            if not v.startswith("reject") and v != "none":
                c["obj"]["redirect"] = {"GET" if p == "single" else "RANGE": {"n": 1, "last": "forbidden_origin", "secret": f"{CAN_RKEY}={CAN_RVAL}"}}
            c["url"]["userinfo"] = True

        add([f"validator_{v}"], fn10)
    return out


def random_case(rng: random.Random, idx: int, pool: list[dict[str, Any]]) -> dict[str, Any]:
    """Combine the object scripts / configs of 2-4 systematic cases (later ones win on conflicts)."""
    import copy

    picks = [copy.deepcopy(rng.choice(pool)) for _ in range(rng.choice([2, 2, 3, 4]))]
    c = _base_case(idx)
    c["url"]["userinfo"] = rng.random() < 0.4
    for p in picks:
        if "slow" in p and any("slow" in q for q in picks if q is not p):
            continue
        c["faults"] += p["faults"]
        for k, v in p["obj"].items():
            if k == "redirect" and "redirect" in c["obj"]:
                c["obj"]["redirect"].update(v)
            elif isinstance(v, dict) and isinstance(c["obj"].get(k), dict):
                c["obj"][k].update(v)
            else:
                c["obj"][k] = v
        base = _base_case(0)
        for k, v in p["cfg"].items():
            if v != base["cfg"][k]:
                c["cfg"][k] = v
        for k, v in p["body"].items():
            if v != base["body"][k]:
                c["body"][k] = v
        if p["url"]["presigned"]:
            c["url"]["presigned"] = p["url"]["presigned"]
        if p["validator"] != "silent":
            c["validator"] = p["validator"]
        if p.get("slow"):
            c["slow"] = True
        if p.get("want_parallel"):
            c["want_parallel"] = True
    if c["url"]["presigned"]:
        c["obj"].setdefault("probe", {"mode": "range"})
    if rng.random() < 0.3:
        c["cfg"]["max_redirects"] = rng.choice([0, 1, 3])
    c["faults"] = sorted(set(c["faults"]) - {"honest"}) or ["honest"]
    return c


# ---------------------------------------------------------------------------
# shard
# ---------------------------------------------------------------------------


def _materialize(case: dict[str, Any]) -> tuple[bytes, bytes]:
    import zstandard

    b = case["body"]
    rng = random.Random(case["id"] * 7919 + 1)
    size = b["size"]
    if b["fill"] == "zeros":
        plain = b"\0" * size
    else:
        plain = rng.randbytes(size)
    if b["codec"] == "zstd":
        stored = zstandard.ZstdCompressor(level=3).compress(plain)
    elif b["codec"] == "gzip":
        stored = gzip.compress(plain, compresslevel=6, mtime=0)
    else:
        stored = plain
    return plain, stored


def _decode(declared: str, stored: bytes, limit: int) -> tuple[str, bytes | None]:
    """('ok', bytes) / ('invalid', None) / ('unknown', None) for the coding an origin named."""
    import zlib

    import zstandard

    d = declared.strip().lower().split(";", 1)[0].strip()
    if d in ("", "identity"):
        return "ok", stored
    if d == "zstd":
        try:
            out = zstandard.ZstdDecompressor().decompressobj().decompress(stored)
            return "ok", out
        except Exception:
            return "invalid", None
    if d == "gzip":
        try:
            return "ok", zlib.decompress(stored, 31)
        except Exception:
            return "invalid", None
    return "unknown", None


def _lies(case: dict[str, Any]) -> set[str]:
    """Which origin lies / deviations (as opposed to honest slowness, failures, redirects) a script contains."""
    o = case["obj"]
    out: set[str] = set()
    rmode = (o.get("range") or {}).get("mode", "honour")
    if rmode not in ("honour", "416", "500"):
        out.add(f"range_{rmode}")
    cl = (o.get("head") or {}).get("cl", "true")
    if cl not in ("true", "absent"):
        out.add("head_content_length")
    pm = (o.get("probe") or {}).get("mode", "range")
    if pm not in ("range", "200", "403", "405", "500", "404"):
        out.add(f"probe_{pm}")
    gl = (o.get("get") or {}).get("length", "auto")
    if isinstance(gl, int):
        out.add("get_content_length")
    if "ce_override" in o or (o.get("get") or {}).get("ce", "same") != "same" or (o.get("head") or {}).get("ce", "same") != "same":
        out.add("content_encoding")
    if (o.get("get") or {}).get("endless"):
        out.add("get_endless")
    return out


def _probe_size_truthful(case: dict[str, Any], presigned: bool) -> bool:
    """Did the probe (HEAD, or the Range probe of a pre-signed URL) tell the client the object's true stored size?"""
    o = case["obj"]
    if presigned:
        return (o.get("probe") or {}).get("mode", "range") == "range" and (o.get("range") or {}).get("mode", "honour") in ("honour", "416", "500")
    h = o.get("head") or {}
    return int(h.get("status", 200)) == 200 and not h.get("drop") and h.get("cl", "true") == "true"


def _chain(exc: BaseException) -> list[tuple[BaseException, bool]]:
    """(exception, displayed) for the whole cause/context graph; displayed = what a traceback would print."""
    out: list[tuple[BaseException, bool]] = []
    seen: set[int] = set()

    def walk(e: BaseException | None, shown: bool) -> None:
        if e is None or id(e) in seen:
            return
        seen.add(id(e))
        out.append((e, shown))
        walk(e.__cause__, shown)
        walk(e.__context__, shown and e.__cause__ is None and not e.__suppress_context__)
        for sub in getattr(e, "exceptions", ()) or ():
            walk(sub, shown)

    walk(exc, True)
    return out


def _exc_text(e: BaseException) -> str:
    parts = [str(e), repr(e), repr(getattr(e, "args", ())), "".join(traceback.format_exception_only(type(e), e))]
    parts += [str(n) for n in getattr(e, "__notes__", ()) or ()]
    ri = getattr(e, "request_info", None)
    if ri is not None:
        parts += [str(getattr(ri, "url", "")), str(getattr(ri, "real_url", ""))]
    for attr in ("url", "message", "history"):
        if hasattr(e, attr):
            with contextlib.suppress(Exception):
                parts.append(repr(getattr(e, attr)))
    return "\n".join(parts)


def _find_canaries(text: str) -> list[str]:
    return [kind for kind, words in CANARIES.items() if any(w in text for w in words)]


def run_shard(job: dict[str, Any]) -> dict[str, Any]:
    import aiohttp
    import aiohttp.streams

    import vgi_rpc._codec as codec_mod
    from lib import origin as origin_mod
    from vgi_rpc import external_fetch as ef

    chk = Check(PID, job["tier"], job["seed"])
    cases: list[dict[str, Any]] = job["cases"]
    table: dict[str, dict[str, Any]] = {}
    peers: dict[str, str] = {}

    def route(req: Any) -> dict[str, Any] | None:
        path = req.path
        if path.startswith("/deny"):
            path = path[5:]
        ent = table.get(path)
        if ent is None:
            return None
        req.entry["case"] = ent["case"]["id"]
        return origin_mod.serve_object(req, ent["obj"], peers)

    oa = origin_mod.Origin(route, name="A").start()
    ob = origin_mod.Origin(route, name="B").start()
    peers["forbidden"] = ob.base
    allowed_netloc = f"127.0.0.1:{oa.port}"

    # -- instrumentation ---------------------------------------------------------
    counters = {"read": 0, "attempts": 0}
    orig_chunk = aiohttp.streams.StreamReader._read_nowait_chunk

    per_reader: dict[int, int] = {}
    range_reads: list[tuple[int, int]] = []

    def counting_chunk(self: Any, n: int) -> bytes:
        data = orig_chunk(self, n)
        counters["read"] += len(data)
        per_reader[id(self)] = per_reader.get(id(self), 0) + len(data)
        return data

    orig_range_body = ef._read_range_response_body

    async def watching_range_body(resp: Any, expected_size: int, config: Any) -> bytes:
        key = id(resp.content)
        before = per_reader.get(key, 0)
        try:
            return await orig_range_body(resp, expected_size, config)
        finally:
            range_reads.append((expected_size, per_reader.get(key, 0) - before))

    ef._read_range_response_body = watching_range_body  # type: ignore[assignment]

    aiohttp.streams.StreamReader._read_nowait_chunk = counting_chunk  # type: ignore[method-assign]
    orig_probe = ef._fetch_with_probe

    def counting_probe(*a: Any, **k: Any) -> Any:
        counters["attempts"] += 1
        return orig_probe(*a, **k)

    ef._fetch_with_probe = counting_probe  # type: ignore[assignment]
    dec_calls: list[dict[str, Any]] = []
    orig_decompress = codec_mod.decompress

    def watching_decompress(encoding: Any, data: bytes, *a: Any, **k: Any) -> bytes:
        rec: dict[str, Any] = {"cap": k.get("max_output_size", a[0] if a else None), "in": len(data)}
        dec_calls.append(rec)
        out = orig_decompress(encoding, data, *a, **k)
        rec["out"] = len(out)
        return out

    codec_mod.decompress = watching_decompress  # type: ignore[assignment]
    records: list[logging.LogRecord] = []

    class Grab(logging.Handler):
        def emit(self, record: logging.LogRecord) -> None:
            records.append(record)

    grab = Grab(level=logging.DEBUG)
    lg = logging.getLogger("vgi_rpc")
    old_level = lg.level
    lg.setLevel(logging.DEBUG)
    lg.addHandler(grab)
    third = logging.getLogger("aiohttp")
    third.addHandler(grab)
    third.setLevel(logging.DEBUG)
    logging.getLogger("asyncio").addHandler(grab)

    def forbidden(url: str) -> str | None:
        p = urlsplit(url)
        if p.scheme != "http":
            return "scheme"
        if p.netloc.rsplit("@", 1)[-1] != allowed_netloc:
            return "origin" if p.hostname == "127.0.0.1" else "host"
        if p.path.startswith("/deny"):
            return "path"
        return None

    def wire_form(url: str) -> str:
        p = urlsplit(url)
        return f"{p.scheme}://{p.netloc.rsplit('@', 1)[-1]}{p.path}" + (f"?{p.query}" if p.query else "")

    cfg_cache: dict[str, Any] = {}
    infos: dict[int, dict[str, Any]] = {}
    try:
        for case in cases:
            plain, stored = _materialize(case)
            obj = dict(case["obj"])
            obj["body"] = stored
            ce_true = case["body"]["codec"]
            ce_named = obj.pop("ce_override", None)
            obj["ce"] = ce_true if ce_named is None else (ce_named or None)
            path = f"/o/{case['id']}"
            table[path] = {"case": case, "obj": obj}
            u = case["url"]
            q = f"{CAN_QKEY}={CAN_QVAL}"
            if u["presigned"] == "sigv4":
                q += f"&X-Amz-Signature={CAN_SIG}&X-Amz-Credential={CAN_CRED}"
            elif u["presigned"] == "gcs":
                q += f"&X-Goog-Signature={CAN_SIG}&X-Goog-Credential={CAN_CRED}"
            elif u["presigned"] == "sigv2":
                q += f"&AWSAccessKeyId={CAN_CRED}&Signature={CAN_SIG}&Expires=1999999999"
            auth = f"{CAN_USER}:{CAN_PASS}@" if u["userinfo"] else ""
            vmode = case["validator"]
            first_path = "/deny" + path if vmode.startswith("reject_initial") else path
            url = f"http://{auth}{allowed_netloc}{first_path}?{q}#{CAN_FRAG}"
            verdicts: list[tuple[str, bool]] = []

            def validator(x: str, vmode: str = vmode, verdicts: list[tuple[str, bool]] = verdicts) -> None:
                why = forbidden(x)
                verdicts.append((x, why is None))
                if why is None:
                    return
                if vmode in ("echo", "reject_initial_echo"):
                    raise ValueError(f"URL {x} is not allowed ({why})")
                if vmode == "components":
                    p = urlsplit(x)
                    raise ValueError(f"not allowed: host={p.hostname} path={p.path} query={p.query} fragment={p.fragment} user={p.username}")
                raise ValueError(f"destination not allowed ({why})")

            cfgd = case["cfg"]
            ckey = repr(sorted(cfgd.items()))
            cfg = cfg_cache.get(ckey)
            if cfg is None:
                cfg = cfg_cache[ckey] = ef.FetchConfig(**cfgd)
            counters["read"] = 0
            counters["attempts"] = 0
            dec_calls.clear()
            per_reader.clear()
            range_reads.clear()
            records.clear()
            box: dict[str, Any] = {}

            def work(url: str = url, cfg: Any = cfg, box: dict[str, Any] = box, vmode: str = vmode, validator: Any = validator) -> None:
                try:
                    box["data"] = ef.fetch_url(url, cfg, url_validator=None if vmode == "none" else validator)
                except BaseException as exc:
                    box["exc"] = exc

            th = threading.Thread(target=work, daemon=True)
            t0 = time.monotonic()
            th.start()
            th.join(timeout=cfgd["timeout_seconds"] * 6 + 20)
            elapsed = time.monotonic() - t0
            if th.is_alive():
                chk.skip("watchdog_fetch_did_not_return")
                chk.inconclusive_because("a fetch did not return within the watchdog")
                table.pop(path, None)
                continue
            log = [e for e in oa.snapshot() + ob.snapshot() if e.get("case") == case["id"]]
            exc = box.get("exc")
            data = box.get("data")
            attempts = max(1, counters["attempts"])
            kinds = [e.get("kind", e["method"]) for e in log]
            probe_mode = "presigned" if u["presigned"] else "head"
            took_parallel = sum(1 for e in log if e.get("kind") == "RANGE") > 0
            dup_ranges = 0
            seen_ranges: set[tuple[str, str]] = set()
            dup_any = 0  # repeated requests for one range whatever the answer was (a refused hedge is still a hedge)
            seen_any: set[tuple[str, str]] = set()
            for e in log:
                if e.get("kind") == "RANGE":
                    key_any = (e["path"], e["headers"].get("range", ""))
                    if key_any in seen_any:
                        dup_any += 1
                    seen_any.add(key_any)
                if e.get("kind") == "RANGE" and e.get("status") == 206:
                    key = (e["path"], e["headers"].get("range", ""))
                    if key in seen_ranges:
                        dup_ranges += 1
                    seen_ranges.add(key)
            if (dup_ranges or dup_any) and not any("redirect" in f for f in case["faults"]):
                chk.hit("hedge_or_retry_duplicate_range_observed")
                # repeated requests for one range come from hedging only (a failed chunk fails the fetch): their number
                # is bounded by max_speculative_hedges per attempt (documented: 0 = unlimited, i.e. one hedge per chunk)
                msh = int(cfgd.get("max_speculative_hedges", 4))
                nchunks = -(-int(case["body"]["size"]) // max(1, int(cfgd["chunk_size_bytes"])))
                # 0 is documented as "unlimited": then every chunk can still be hedged at most once
                # (a redirected range request reaches the origins twice by design: scripts with redirects are not judged here)
                if not case["obj"].get("redirect") and dup_any > attempts * (msh if msh > 0 else nchunks):
                    chk.violation(
                        "hedge_requests_exceed_max_speculative_hedges",
                        f"{dup_any} repeated range requests in one fetch with max_speculative_hedges={cfgd.get('max_speculative_hedges')}",
                        {"case": {k: case[k] for k in ("id", "cfg", "faults")}, "obj": case["obj"], "repeated_range_requests": dup_any, "attempts": attempts},
                    )
                if any(e.get("slowed") for e in log) and attempts == 1:
                    chk.hit("hedge_observed")
            red = case["obj"].get("redirect") or {}
            red_shape = "+".join(f"{k}:{v.get('n')}:{v.get('last', 'next')}" for k, v in sorted(red.items())) or "none"
            outcome = "ok" if exc is None else "err"
            chk.case(f"{probe_mode}:{'parallel' if took_parallel else 'single'}:{red_shape}:{'+'.join(case['faults'])[:80]}:{vmode}:{outcome}")
            chk.hit("fetches")
            chk.hit("returned_ok" if exc is None else "raised")
            if exc is None:
                chk.hit(f"returned_ok_{probe_mode}_{'parallel' if took_parallel else 'single'}")
            if attempts > 1:
                chk.hit("stale_connection_retry_observed")
            wit = {
                "case": {k: v for k, v in case.items() if k != "obj"},
                "obj": case["obj"],
                "requests": [(e["origin"], e["method"], e["target"][:120], e["headers"].get("range"), e["status"], e.get("hop")) for e in log][:40],
                "outcome": "returned %d bytes" % len(data) if exc is None else f"{type(exc).__name__}: {str(exc)[:200]}",
                "bytes_consumed": counters["read"],
                "attempts": attempts,
                "elapsed_s": round(elapsed, 3),
            }

            # (a) contacts and (b) redirects are judged at the end of the shard over the whole origin log
            # (requests of cancelled hedges / chunk tasks can arrive after fetch_url returned)
            infos[case["id"]] = {
                "wit": wit,
                "accepted": {wire_form(x) for x, ok in verdicts if ok},
                "vmode": vmode,
                "mr": cfgd["max_redirects"],
                "attempts": attempts,
                "red": red,
                "endless": "endless" in str(case["obj"]) or "206_long" in str(case["obj"].get("probe")),
            }
            if any(not ok for _, ok in verdicts):
                chk.hit("validator_rejected_some_url")
            # (c) bytes -----------------------------------------------------------------
            mfb = cfgd["max_fetch_bytes"]
            bound = attempts * (mfb + READ_CHUNK) + len(log) + dup_ranges * cfgd["chunk_size_bytes"]
            chk.hit("byte_bound_checked")
            if counters["read"] > bound:
                chk.violation(
                    f"encoded_bytes_over_cap:{'parallel' if took_parallel else 'single'}",
                    f"{counters['read']} body bytes consumed; max_fetch_bytes={mfb}, attempts={attempts}, bound={bound}",
                    wit,
                )
            if counters["read"] > mfb:
                chk.hit("read_beyond_cap_within_one_chunk")
            for expected_size, consumed in list(range_reads):
                chk.hit("range_responses_measured")
                if consumed > min(expected_size, mfb) + 1:
                    chk.violation("range_response_overread", f"{consumed} bytes consumed from a 206 body for a {expected_size}-byte range (cap {mfb})", wit)
                elif consumed == expected_size + 1:
                    chk.hit("range_sentinel_byte_read")
            eff_cap = mfb * 16 if cfgd["max_decompressed_bytes"] is None else cfgd["max_decompressed_bytes"]
            for rec in dec_calls:
                chk.hit("decompress_calls")
                if rec["cap"] is None or rec["cap"] > eff_cap:
                    chk.violation("decompress_without_configured_cap", f"decompress called with max_output_size={rec['cap']} (configured {eff_cap})", wit)
                if rec.get("out", 0) > eff_cap:
                    chk.violation("decoded_bytes_over_cap", f"decompress produced {rec.get('out')} > {eff_cap}", wit)
                if "out" not in rec:
                    chk.hit("decompress_refused")
            if data is not None and len(data) > eff_cap:
                chk.violation("decoded_bytes_over_cap:returned", f"returned {len(data)} bytes > max_decompressed_bytes {eff_cap}", wit)
            # (d) returned bytes -----------------------------------------------------------
            if data is not None:
                chk.hit("returned_bytes_judged")
                head_ce = (case["obj"].get("head") or {}).get("ce", "same")
                get_ce = (case["obj"].get("get") or {}).get("ce", "same")
                named = obj["ce"] or ""
                cands: list[str] = []
                if took_parallel:
                    cands = [named if head_ce == "same" else (head_ce or "")]
                    if u["presigned"]:
                        cands = [named]
                else:
                    g = named if get_ce == "same" else (get_ce or "")
                    cands = [g]
                    if not g:
                        h = named if head_ce == "same" else (head_ce or "")
                        if h and not u["presigned"]:
                            cands.append(h)
                        if u["presigned"] and named:
                            cands.append(named)
                acceptable: list[bytes] = []
                unknown = False
                for d in cands:
                    st, val = _decode(d, stored, eff_cap)
                    if st == "ok" and val is not None:
                        acceptable.append(val)
                    elif st == "unknown":
                        unknown = True
                undetectable = None
                gl = (case["obj"].get("get") or {}).get("length")
                if isinstance(gl, int) and gl < len(stored) and not took_parallel:
                    undetectable = "get_content_length_smaller_than_body_is_http_framing"
                if (case["obj"].get("get") or {}).get("endless") and not took_parallel:
                    undetectable = "endless_body_cut_by_declared_length_is_http_framing"
                rmode = (case["obj"].get("range") or {}).get("mode")
                if took_parallel and rmode in ("shift_lying", "no_cr"):
                    undetectable = f"range_{rmode}_carries_no_evidence"
                g_ = case["obj"].get("get") or {}
                if g_.get("length") == "none" and g_.get("abort_at") is not None and not took_parallel and not _probe_size_truthful(case, bool(u["presigned"])):
                    # a body delimited only by connection close, cut half way, and no truthful size from the probe:
                    # nothing the client received distinguishes the prefix from a complete object
                    undetectable = "unframed_body_cut_short_without_a_truthful_probe_size"
                if (case["obj"].get("get") or {}).get("status") == 204 and not took_parallel:
                    acceptable = [b""]  # the origin answered "no content": that is what it serves
                if data in acceptable:
                    chk.hit("returned_bytes_correct")
                elif unknown:
                    chk.skip("returned_under_unimplemented_content_coding")
                elif undetectable:
                    chk.skip("wrong_bytes_but_origin_lie_undetectable:" + undetectable)
                else:
                    ref = acceptable[0] if acceptable else plain
                    how = (
                        "still_encoded"
                        if data == stored and stored != plain
                        else "truncated"
                        if len(data) < len(ref) and ref.startswith(data)
                        else "same_length_wrong_content"
                        if len(data) == len(ref)
                        else "other"
                    )
                    lies = _lies(case)
                    if not lies:
                        culprit = f"{how}:honest_origin"
                    elif took_parallel and "range_shift_honest" in lies:
                        culprit = "shifted_content_range_accepted"
                    elif took_parallel and lies & {"head_content_length", "probe_206_total_lie"}:
                        culprit = "short_probe_length_accepted"
                    else:
                        culprit = how + ":" + "+".join(sorted(lies))[:60]
                    chk.violation(
                        f"wrong_bytes:{'parallel' if took_parallel else 'single'}:{culprit}",
                        f"fetch returned {len(data)} bytes that are not the object's decoded bytes ({how}; object {len(plain)} plain / {len(stored)} stored)",
                        wit,
                    )
            # (e) credentials ------------------------------------------------------------------
            if exc is not None:
                chk.hit("exception_chains_scanned")
                for e2, shown in _chain(exc):
                    kinds2 = _find_canaries(_exc_text(e2))
                    if not kinds2:
                        continue
                    if vmode == "components":
                        chk.skip("validator_message_leaks_url_components_itself")
                        continue
                    site = "validator_message" if "URL rejected" in str(exc) else "fetch_error"
                    if shown:
                        chk.violation(f"secret_in_error:{site}", f"{'/'.join(kinds2)} canary in {type(e2).__name__} reachable from the raised {type(exc).__name__}", {**wit, "canaries": kinds2, "text": _exc_text(e2)[:300]})
                    else:
                        chk.violation(
                            f"secret_in_suppressed_context:{site}",
                            f"{'/'.join(kinds2)} canary in the {type(e2).__name__} still attached as __context__ of the raised {type(exc).__name__} ('from None' only hides it from tracebacks)",
                            {**wit, "canaries": kinds2, "text": _exc_text(e2)[:300]},
                        )
            for r in records:
                chk.hit("log_records_scanned")
                try:
                    text = r.getMessage()
                except Exception:
                    text = str(r.msg)
                extras = {k: v for k, v in r.__dict__.items() if k not in logging.LogRecord("", 0, "", 0, "", (), None).__dict__}
                text += " " + repr(extras)
                if r.exc_info and r.exc_info[1] is not None:
                    text += " " + "".join(traceback.format_exception(r.exc_info[1]))
                kinds3 = _find_canaries(text)
                if kinds3:
                    if r.name.startswith("vgi_rpc"):
                        chk.violation(f"secret_in_log:{r.name}", f"{'/'.join(kinds3)} canary in a log record of {r.name}", {**wit, "canaries": kinds3, "record": text[:300]})
                    else:
                        chk.skip(f"third_party_log_contains_canary:{r.name}")
            if len(chk.samples) < 5 and (case["id"] % 37 == 0 or dup_ranges):
                chk.sample(wit)
        # ---- end of shard: judge the wire log per case -------------------------------------------
        def busy() -> bool:
            return any(
                e.get("status") in (200, 206) and not (e.get("client_closed") or e.get("finished") or e.get("aborted"))
                for e in oa.snapshot() + ob.snapshot()
            )

        for cfg in cfg_cache.values():
            with contextlib.suppress(Exception):
                cfg.close()
        deadline = time.monotonic() + 8
        while time.monotonic() < deadline and busy():
            time.sleep(0.05)
        by_case: dict[int, list[dict[str, Any]]] = {}
        for e in oa.snapshot() + ob.snapshot():
            if "case" in e:
                by_case.setdefault(e["case"], []).append(e)
            else:
                chk.skip("origin_request_for_unknown_path")
        for cid, info in infos.items():
            log = by_case.get(cid, [])
            wit = info["wit"]
            mr = info["mr"]
            for e in log:
                chk.hit("origin_requests")
                kind = e.get("kind", e["method"])
                seen_url = f"http://{e['host']}{e['target']}"
                if info["vmode"] != "none":
                    why = forbidden(seen_url)
                    if e["origin"] == "B" and why is None:
                        why = "origin"
                    if why is not None:
                        chk.violation(f"contacted_rejected_url:{why}", "a request reached an origin for a URL the configured validator rejects", {**wit, "url": seen_url})
                    elif seen_url not in info["accepted"]:
                        chk.violation("contacted_unvalidated_url", "a request reached the origin for a URL the validator was never asked about", {**wit, "url": seen_url, "validated": sorted(info["accepted"])[:6]})
                    else:
                        chk.hit("contact_validated")
                if "hop" in e:
                    chk.hit("redirect_hops_seen")
                    if e["hop"] > mr:
                        chk.violation("redirects_exceeded", f"{kind} request with hop index {e['hop']} > max_redirects={mr}", {**wit, "url": seen_url})
                if info["endless"] and e.get("status") in (200, 206) and e["method"] == "GET" and e.get("body_sent", 0) > 0:
                    chk.hit("endless_bodies_checked")
                    chk.hit("origin_bytes_sent_for_endless_bodies", int(e.get("body_sent", 0)))
                    if e.get("hit_hard_limit"):
                        chk.violation("unbounded_read:origin_hard_limit", f"origin streamed its {HARD_LIMIT} byte hard limit and the client was still reading", wit)
            for kind, spec in info["red"].items():
                if spec.get("n") == "selfloop":
                    per: dict[str, int] = {}
                    for e in log:
                        if e.get("kind") == kind and e.get("tag") == "redirect":
                            k2 = e["headers"].get("range", "")
                            per[k2] = per.get(k2, 0) + 1
                    if per:
                        chk.hit("selfloop_seen")
                        if max(per.values()) > (mr + 1) * info["attempts"]:
                            chk.violation("redirects_exceeded:selfloop", f"{max(per.values())} requests in a self-redirect loop with max_redirects={mr}", wit)
    finally:
        aiohttp.streams.StreamReader._read_nowait_chunk = orig_chunk  # type: ignore[method-assign]
        ef._fetch_with_probe = orig_probe  # type: ignore[assignment]
        ef._read_range_response_body = orig_range_body  # type: ignore[assignment]
        codec_mod.decompress = orig_decompress  # type: ignore[assignment]
        lg.removeHandler(grab)
        lg.setLevel(old_level)
        third.removeHandler(grab)
        logging.getLogger("asyncio").removeHandler(grab)
        oa.stop()
        ob.stop()
    return chk.to_result()


def main(tier: str, seed: int) -> int:
    chk = Check(PID, tier, seed, level=CATEGORY, rule=RULE)
    chk.require(
        "fetches",
        "returned_ok_head_single",
        "returned_ok_head_parallel",
        "returned_ok_presigned_single",
        "returned_ok_presigned_parallel",
        "raised",
        "contact_validated",
        "validator_rejected_some_url",
        "redirect_hops_seen",
        "selfloop_seen",
        "byte_bound_checked",
        "range_responses_measured",
        "range_sentinel_byte_read",
        "read_beyond_cap_within_one_chunk",
        "decompress_calls",
        "decompress_refused",
        "endless_bodies_checked",
        "returned_bytes_correct",
        "exception_chains_scanned",
        "log_records_scanned",
        "hedge_observed",
        "stale_connection_retry_observed",
    )
    chk.assumptions = [
        "the object is what the origin serves for an unconditional GET; its decoded bytes are defined by the Content-Encoding the delivering response names",
        "origin lies that leave no evidence on the wire (short Content-Length on the delivering GET, 206 without / with a false Content-Range) are counted, not judged",
        "hedge / retry duplicates of a range may re-read that range (bound adds chunk_size per duplicate)",
        "codings the fetcher does not implement (br, x-gzip, lists) are counted, not judged",
        "validators that leak URL components in their own message are counted, not judged",
    ]
    sysc = systematic_cases()
    rng = random.Random(f"c31:{seed}")
    nrand = 260 if tier == "quick" else 24000
    pool = [c for c in sysc if "bomb" not in c["faults"][0]]
    rnd = [random_case(rng, 100_000 + i, pool) for i in range(nrand)]
    allc = sysc + rnd
    for i, c in enumerate(allc):
        c["id"] = i
    slow = [c for c in allc if c.get("slow")]
    fast = [c for c in allc if not c.get("slow")]
    n = shard.ncpu() if tier == "quick" else shard.ncpu() * 3
    jobs = []
    for k, part in enumerate(shard.split(fast, n)):
        part = part + slow[k::n]
        jobs.append({"tier": tier, "seed": seed, "cases": part})
    for res in shard.pmap("checks.c31", "run_shard", jobs, timeout=900 if tier == "quick" else 3000):
        chk.merge(res)
    chk.extra["systematic_cases"] = len(sysc)
    chk.extra["random_cases"] = len(rnd)
    chk.exhaustive["single_fault_x_probe_mode_x_path"] = True
    chk.exhaustive["fault_combinations"] = False
    return chk.finish()

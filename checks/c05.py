"""C05 - malformed requests never silently kill or hang a connection.

A hand-written raw IPC client talks to the real ``RpcServer.serve`` loop over a Unix
socketpair.  *Well-framed leg*: single-batch request streams whose custom metadata is
drawn from the framework key set (method, request / protocol version, shared-memory
segment name / size / offset / length, location, cancel, state, log keys, trace
context) with arbitrary - also non-UTF-8 - values plus arbitrary extra keys, whose
columns are arbitrary name/type combinations (or the method's own schema) and whose
row count is 0..3.  Oracle: the server answers with a decodable response stream (a
result or an EXCEPTION batch) and a following ``echo(nonce)`` on the same connection
returns its nonce.  *Corrupt leg*: truncations at every IPC message boundary and at
random offsets, and random byte corruption of valid requests, followed by a
write-shutdown.  Oracle: either a decodable reply, or the server closes the connection
(the client's read returns EOF) - the client is never left waiting.

A read that does not complete within the watchdog is judged logically: it is a
violation only when the serve thread is dead, or alive with no client bytes pending.
"""

from __future__ import annotations

import random
from typing import Any

from lib import shard
from lib.evidence import Check

PID = "C05"
CATEGORY = "fault_enumeration"
ENGINE = "E2-raw-drivers"
TECHNIQUE = "raw Arrow-IPC request fuzzing (grammar over framework metadata keys, columns, row counts; truncation / corruption) against the real serve loop with a nonce-echo liveness probe"
LEVEL_TEXT = (
    "Fault enumeration + exploration: a grid over each framework metadata key x hostile value class, generated column "
    "sets x row counts, every message-boundary truncation of sample requests and seeded random corruptions, each "
    "followed by a nonce-echo probe (or an EOF expectation).; 0-row shared-memory pointer requests (allocated, unregistered, garbage, truncated regions, hostile numbers x real/foreign/missing segment); every corrupt request also from a peer that keeps its write side open (judged when the IPC reader does not want more input). Held = every well-framed request was answered and the "
    "connection kept serving; every corrupt one was answered or the connection was closed."
)
LEVEL_NOTE = "in-process serve thread over a Unix socketpair; shared-memory segments used as hostile inputs are created by the harness (a VGI segment, a foreign non-VGI segment) and removed afterwards"
RULE = "case = (method kind, metadata mutation class, column class, rows) or (corruption kind, position class); class = same"

WATCHDOG_S = 6.0


def _program() -> dict[str, Any]:
    return {
        "name": "RawSvc",
        "version": None,
        "methods": [
            {"name": "echo", "kind": "unary", "params": [("nonce", ("str",))], "ret": ("str",), "u": {"logs": [], "act": ("echo", "nonce")}},
            {"name": "typed", "kind": "unary", "params": [("a", ("int",)), ("b", ("opt", ("str",)))], "ret": ("int",), "u": {"logs": [("INFO", "l", {})], "act": ("echo", "a")}},
            {"name": "noargs", "kind": "unary", "params": [], "ret": None, "u": {"logs": [], "act": ("return", None)}},
            {"name": "blob", "kind": "unary", "params": [("data", ("bytes",))], "ret": ("bytes",), "u": {"logs": [], "act": ("echo", "data")}},
            {"name": "prod", "kind": "producer", "params": [("n", ("int",))], "header": False, "out_cols": ["i"], "init": {"logs": [], "act": ("ok",)}, "steps": [{"logs": [], "act": "emit", "rows": 1}]},
            {"name": "prodh", "kind": "producer", "params": [], "header": True, "out_cols": ["i"], "init": {"logs": [], "act": ("ok",)}, "steps": [{"logs": [], "act": "emit", "rows": 1}]},
            {"name": "xch", "kind": "exchange", "params": [], "header": False, "in_cols": ["i"], "out_cols": ["i"], "init": {"logs": [], "act": ("ok",)}, "steps": [{"logs": [], "act": "emit"}]},
        ],
        "calls": [],
    }


class _Conn:
    def __init__(self, versioned: bool = False) -> None:
        import socket
        import threading

        from lib import rig, svcgen
        from vgi_rpc.rpc import RpcServer, UnixTransport

        prog = _program()
        if versioned:
            prog["version"] = "1.2.0"
        self.proto, self.impl = svcgen.build(prog)
        self.server = RpcServer(self.proto, self.impl)
        self.c, s = socket.socketpair()
        self.c.settimeout(WATCHDOG_S)
        self.st = UnixTransport(s)
        self.s_sock = s
        def serve_like_handle() -> None:
            # what _serve_socket_threaded._handle (and a worker process exiting) do around serve():
            # whatever ends the loop, the connection is closed afterwards
            try:
                self.server.serve(self.st)
            except Exception as exc:  # noqa: BLE001 - recorded for the verdict
                self.impl._serve_died = exc
            finally:
                import contextlib

                with contextlib.suppress(Exception):
                    self.st.close()

        _ = rig
        self.th = threading.Thread(target=serve_like_handle, daemon=True)
        self.th.start()
        self.rfile = self.c.makefile("rb")
        self.dead = False

    def send(self, data: bytes) -> bool:
        try:
            self.c.sendall(data)
            return True
        except OSError:
            return False

    def _wait_reply(self) -> str:
        """Wait until reply bytes are readable; notice a dead serve thread without burning the watchdog."""
        import select
        import time

        deadline = time.monotonic() + WATCHDOG_S
        while time.monotonic() < deadline:
            r, _, _ = select.select([self.c], [], [], 0.02)
            if r:
                return "readable"
            if not self.th.is_alive():
                r, _, _ = select.select([self.c], [], [], 0.05)
                return "readable" if r else "server_dead"
        return "timeout"

    def read_stream(self) -> tuple[str, Any]:
        """Read one IPC stream: ("ok", batches) | ("eof", None) | ("timeout", None) | ("garbage", exc)."""
        import pyarrow as pa
        from pyarrow import ipc

        w = self._wait_reply()
        if w != "readable":
            return "timeout", w
        try:
            rd = ipc.open_stream(self.rfile)
            out = []
            while True:
                try:
                    b, md = rd.read_next_batch_with_custom_metadata()
                except StopIteration:
                    break
                out.append((b, {k.decode(errors="replace"): v for k, v in (md or {}).items()}))
            return "ok", out
        except TimeoutError:
            return "timeout", None
        except (pa.ArrowInvalid, OSError, EOFError) as exc:
            msg = str(exc)
            if isinstance(exc, TimeoutError) or "timed out" in msg:
                return "timeout", None
            if "end of stream" in msg.lower() or "eof" in msg.lower() or "Tried reading" in msg or "Expected to read" in msg or "closed" in msg.lower():
                return "eof", msg
            return "garbage", msg

    def pending_client_bytes(self) -> bool | None:
        import select

        try:
            r, _, _ = select.select([self.s_sock.fileno()], [], [], 0)
            return bool(r)
        except Exception:  # noqa: BLE001
            return None

    def close(self) -> None:
        import contextlib
        import socket as _s

        if self.dead:
            return  # a reader may be parked on it; abandon
        with contextlib.suppress(Exception):
            self.c.shutdown(_s.SHUT_RDWR)
        with contextlib.suppress(Exception):
            self.rfile.close()
        with contextlib.suppress(Exception):
            self.c.close()
        self.th.join(timeout=2)
        if not self.th.is_alive():
            with contextlib.suppress(Exception):
                self.st.close()


def _req(method: bytes | None, schema: Any, rows: list[list[Any]] | None, md_extra: dict[bytes, bytes], version: bytes | None = b"1") -> bytes:
    import io

    import pyarrow as pa
    from pyarrow import ipc

    md: dict[bytes, bytes] = {}
    if method is not None:
        md[b"vgi_rpc.method"] = method
    if version is not None:
        md[b"vgi_rpc.request_version"] = version
    md.update(md_extra)
    arrays = [pa.array(col, type=f.type) for col, f in zip(rows or [[] for _ in schema], schema, strict=True)]
    batch = pa.RecordBatch.from_arrays(arrays, schema=schema)
    sink = io.BytesIO()
    with ipc.new_stream(sink, schema) as w:
        w.write_batch(batch, custom_metadata=pa.KeyValueMetadata(md))
    return sink.getvalue()


def _empty_input_stream() -> bytes:
    import io

    import pyarrow as pa
    from pyarrow import ipc

    sink = io.BytesIO()
    with ipc.new_stream(sink, pa.schema([])):
        pass
    return sink.getvalue()


HOSTILE_VALUES: dict[str, list[bytes]] = {
    "text": [b"", b"x", b"\xff\xfe", b"0", b"-1", b"1" * 400, b"\x00", "ü".encode(), b"true", b"null", b"{}"],
    "number": [b"", b"0", b"-5", b"abc", b"1e9", b"99999999999999999999999", b"\xff", b" 12 ", b"4096", b"1048576"],
}

METADATA_KEYS = [
    b"vgi_rpc.protocol_version",
    b"vgi_rpc.shm_segment_name",
    b"vgi_rpc.shm_segment_size",
    b"vgi_rpc.shm_offset",
    b"vgi_rpc.shm_length",
    b"vgi_rpc.location",
    b"vgi_rpc.location.sha256",
    b"vgi_rpc.cancel",
    b"vgi_rpc.stream_state#b64",
    b"vgi_rpc.call_state#b64",
    b"vgi_rpc.log_level",
    b"vgi_rpc.log_message",
    b"vgi_rpc.log_extra",
    b"vgi_rpc.error_kind",
    b"vgi_rpc.server_id",
    b"vgi_rpc.request_id",
    b"vgi_rpc.shm_source",
    b"vgi_rpc.transport.shm",
    b"traceparent",
    b"tracestate",
    b"arbitrary.key",
    b"\xff\xfekey",
    b"",
]


def _method_schema(name: str) -> Any:
    import pyarrow as pa

    return {
        "echo": pa.schema([pa.field("nonce", pa.string(), nullable=False)]),
        "typed": pa.schema([pa.field("a", pa.int64(), nullable=False), pa.field("b", pa.string(), nullable=True)]),
        "noargs": pa.schema([]),
        "blob": pa.schema([pa.field("data", pa.binary(), nullable=False)]),
        "prod": pa.schema([pa.field("n", pa.int64(), nullable=False)]),
        "prodh": pa.schema([]),
        "xch": pa.schema([]),
    }[name]


def _valid_row(name: str) -> list[list[Any]]:
    return {"echo": [["v"]], "typed": [[3], ["s"]], "noargs": [], "blob": [[b"\x00\x01"]], "prod": [[1]], "prodh": [], "xch": []}[name]


KIND = {"echo": "unary", "typed": "unary", "noargs": "unary", "blob": "unary", "prod": "stream_n", "prodh": "stream_h", "xch": "stream_n"}


def _gen_columns(rng: random.Random) -> tuple[Any, list[list[Any]], str]:
    import pyarrow as pa

    types = [
        ("int64", pa.int64(), lambda: rng.randint(-5, 5)),
        ("string", pa.string(), lambda: rng.choice(["", "a", "ü"])),
        ("binary", pa.binary(), lambda: rng.choice([b"", b"\x00\xff"])),
        ("float64", pa.float64(), lambda: rng.choice([0.0, float("nan")])),
        ("bool", pa.bool_(), lambda: rng.random() < 0.5),
        ("list<int>", pa.list_(pa.int32()), lambda: [1, 2]),
        ("struct", pa.struct([pa.field("x", pa.int8())]), lambda: {"x": 1}),
        ("dict", pa.dictionary(pa.int16(), pa.string()), lambda: rng.choice(["RED", "nope"])),
        ("null", pa.null(), lambda: None),
        ("ts_ns", pa.timestamp("ns"), lambda: rng.choice([1, 1001])),
        ("decimal", pa.decimal128(10, 2), lambda: None),
        ("map", pa.map_(pa.string(), pa.int64()), lambda: [("k", 1)]),
    ]
    ncols = rng.choice([0, 1, 1, 2, 3])
    nrows = rng.choice([0, 1, 1, 2, 3])
    names = ["nonce", "a", "b", "data", "n", "ctx", "self", "", "ünï", "a"]
    fields, cols, tnames = [], [], []
    for _ in range(ncols):
        tn, t, g = rng.choice(types)
        fields.append(pa.field(rng.choice(names), t, nullable=(rng.random() < 0.5 or tn == "null")))
        cols.append([g() if rng.random() < 0.85 else None for _ in range(nrows)])
        tnames.append(tn)
    # non-nullable fields must not hold nulls for the batch to be constructible in pyarrow
    for i, f in enumerate(fields):
        if not f.nullable and any(v is None for v in cols[i]):
            fields[i] = pa.field(f.name, f.type, nullable=True)
    return pa.schema(fields), cols, f"cols{ncols}:rows{nrows}"


def _wants_more_input(data: bytes) -> str:
    """How the Arrow IPC reader takes *data* when nothing follows: 'complete' (a whole stream), 'rejected' (refused
    without running out of bytes) or 'wants_more' (unexpected end of data: a blocking reader would wait)."""
    import io

    import pyarrow as pa
    from pyarrow import ipc

    try:
        rd = ipc.open_stream(io.BytesIO(data))
        while True:
            try:
                rd.read_next_batch()
            except StopIteration:
                return "complete"
    except (pa.ArrowInvalid, OSError, EOFError) as exc:
        msg = str(exc)
        if any(t in msg for t in ("Expected to", "Tried reading", "end of stream", "EOF", "null or length 0", "Unexpected end", "bytes for message body, got")):
            return "wants_more"
        return "rejected"
    except Exception:  # noqa: BLE001
        return "wants_more"


def run_shard(job: dict[str, Any]) -> dict[str, Any]:
    import contextlib

    from lib import httpdrv
    from vgi_rpc.shm import ShmSegment

    chk = Check(PID, job["tier"], job["seed"], level=CATEGORY)
    rng = random.Random(job["seed"])
    seg = ShmSegment.create(1 << 18)
    from multiprocessing.shared_memory import SharedMemory

    foreign = SharedMemory(create=True, size=8192)
    foreign.buf[:16] = b"NOT-A-VGI-SEGMT!"
    conn_box: list[_Conn | None] = [None]

    def conn() -> _Conn:
        if conn_box[0] is None:
            conn_box[0] = _Conn()
            chk.hit("connections_opened")
        return conn_box[0]

    def drop() -> None:
        if conn_box[0] is not None:
            conn_box[0].close()
            conn_box[0] = None

    def judge_timeout(c: _Conn, key: str, wit: dict[str, Any]) -> None:
        alive = c.th.is_alive()
        pending = c.pending_client_bytes()
        died = getattr(c.impl, "_serve_died", None)
        c.dead = True
        if not alive:
            mech = type(died).__name__ if died is not None else "ended"
            chk.violation(f"serve_loop_died_without_reply:{key}:{mech}", "the serve loop ended without answering a well-framed request; the client is left waiting", {**wit, "exception": repr(died)[:300]})
        elif pending is False:
            chk.violation(f"no_reply_server_idle:{key}", "the server is waiting for input while the client waits for the reply to a complete request", wit)
        else:
            chk.inconclusive_because(f"watchdog fired without logical confirmation ({key})")
        conn_box[0] = None

    def probe(c: _Conn, key: str, wit: dict[str, Any]) -> bool:
        import pyarrow as pa

        nonce = f"n{rng.randrange(10**9)}"
        sent = c.send(_req(b"echo", pa.schema([pa.field("nonce", pa.string(), nullable=False)]), [[nonce]], {}))
        st, batches = c.read_stream() if sent else ("eof", "send failed: connection closed by the server")
        if st == "timeout":
            judge_timeout(c, f"probe_after:{key}", wit)
            return False
        if st != "ok":
            died = getattr(c.impl, "_serve_died", None)
            chk.violation(
                f"connection_lost_after_wellframed_request:{key}" + (f":{type(died).__name__}" if died is not None else ""),
                "the connection no longer serves after a well-framed request",
                {**wit, "probe": st, "detail": str(batches)[:200], "exception": repr(died)[:300]},
            )
            c.dead = not c.th.is_alive() and False
            drop()
            return False
        vals = [b.column(0)[0].as_py() for b, md in batches if b.num_rows == 1 and b.num_columns == 1]
        if vals != [nonce]:
            chk.violation(f"probe_wrong_reply_after:{key}", "the next call did not receive its own reply", {**wit, "probe_batches": str(batches)[:300]})
            drop()
            return False
        chk.hit("probe_ok")
        return True

    def run_wellframed(name: str, method: bytes | None, schema: Any, rows: list[list[Any]] | None, md: dict[bytes, bytes], version: bytes | None, key: str, wit: dict[str, Any]) -> None:
        c = conn()
        kind = KIND.get(name, "unary")
        data = _req(method, schema, rows, md, version)
        c.send(data)
        if kind == "stream_n":
            c.send(_empty_input_stream())
        st, batches = c.read_stream()
        if st == "timeout":
            judge_timeout(c, key, wit)
            return
        if st != "ok":
            died = getattr(c.impl, "_serve_died", None)
            chk.violation(
                f"no_decodable_reply:{key}" + (f":{type(died).__name__}" if died is not None else f":{st}"),
                "a well-framed request was not answered with a decodable response stream",
                {**wit, "read": st, "detail": str(batches)[:200], "exception": repr(died)[:300]},
            )
            drop()
            return
        chk.hit("reply_decoded")
        err = httpdrv.error_of(batches)
        if err is not None:
            chk.hit("typed_error_reply")
        else:
            chk.hit("success_reply")
            if kind == "stream_h":
                c.send(_empty_input_stream())
                st2, _b2 = c.read_stream()
                if st2 != "ok":
                    if st2 == "timeout":
                        judge_timeout(c, key + ":stream_body", wit)
                    else:
                        chk.violation(f"no_decodable_reply:{key}:stream_body:{st2}", "stream body not decodable", wit)
                        drop()
                    return
        probe(c, key, wit)

    # ---- leg 1: metadata grid -------------------------------------------------------------------
    for case in job["meta_cases"]:
        name, k, vclass, v = case["method"], case["key"].encode("latin1"), case["vclass"], case["value"].encode("latin1")
        fam = "shm_metadata" if k.startswith(b"vgi_rpc.shm") else (k.decode("latin1") if k.isascii() and k else "nonascii_or_empty_key")
        key = f"meta:{fam}"
        if k == b"vgi_rpc.shm_segment_name":
            v = {"real": seg.name.encode(), "foreign": foreign.name.encode(), "missing": b"psm_does_not_exist", "slash": b"/../etc/passwd"}.get(vclass, v)
        md = {k: v}
        if case.get("with_size"):
            md[b"vgi_rpc.shm_segment_size"] = case["with_size"].encode()
        if case.get("with_name"):
            md[b"vgi_rpc.shm_segment_name"] = {"real": seg.name.encode(), "foreign": foreign.name.encode(), "missing": b"psm_nope"}[case["with_name"]]
        wit = {"method": name, "metadata": {kk.decode("latin1"): vv.decode("latin1") for kk, vv in md.items()}}
        chk.case(f"meta:{k.decode('latin1') if k.isascii() else repr(k)}:{vclass}:{KIND[name]}|{case.get('with_size', '')}|{case.get('with_name', '')}")
        run_wellframed(name, name.encode(), _method_schema(name), _valid_row(name), md, b"1", key, wit)
    # ---- leg 1b: shared-memory pointer requests (0-row request batch + offset/length/segment name) ---------
    def _place(how: str, mname: str) -> tuple[str, str]:
        """Put request bytes into ``seg`` and return (offset, length) as the client would advertise them."""
        import io

        import pyarrow as pa
        from pyarrow import ipc

        sch = _method_schema(mname)
        rb = pa.RecordBatch.from_arrays([pa.array(col, type=f.type) for col, f in zip(_valid_row(mname), sch, strict=True)], schema=sch)
        if how == "allocated":
            got = seg.allocate_and_write(rb)
            assert got is not None
            return str(got[0]), str(got[1])
        sink = io.BytesIO()
        with ipc.new_stream(sink, sch) as w:
            w.write_batch(rb)
        raw = sink.getvalue()
        buf = seg._shm.buf
        assert buf is not None
        if how == "unregistered":
            # a peer that wrote a good batch but whose allocation table does not list it
            off = 200000
            buf[off : off + len(raw)] = raw
            return str(off), str(len(raw))
        if how == "garbage":
            off = 180000
            buf[off : off + 64] = bytes(rng.randrange(256) for _ in range(64))
            return str(off), "64"
        if how == "truncated":
            off = 190000
            buf[off : off + len(raw)] = raw
            return str(off), str(max(8, len(raw) // 2))
        raise AssertionError(how)

    for case in job.get("pointer_cases", []):
        name = case["method"]
        key = f"shm_pointer:{case['how']}:{case['name']}"
        chk.case(f"shm_pointer:{case['how']}:{case['name']}:{KIND[name]}")
        if case["how"] in ("allocated", "unregistered", "garbage", "truncated"):
            off, ln = _place(case["how"], name)
        else:
            off, ln = case["off"], case["len"]
        md = {
            b"vgi_rpc.shm_offset": off.encode(),
            b"vgi_rpc.shm_length": ln.encode(),
            b"vgi_rpc.shm_segment_name": {"real": seg.name.encode(), "foreign": foreign.name.encode(), "missing": b"psm_nope"}[case["name"]],
            b"vgi_rpc.shm_segment_size": b"262144",
        }
        wit = {"method": name, "pointer": case, "metadata": {kk.decode("latin1"): vv.decode("latin1") for kk, vv in md.items()}}
        chk.hit("shm_pointer_request_sent")
        run_wellframed(name, name.encode(), _method_schema(name), None, md, b"1", key, wit)
        with contextlib.suppress(Exception):
            seg.reset()
    # ---- leg 2: method / version field ------------------------------------------------------------
    for case in job["head_cases"]:
        m = None if case["method"] is None else case["method"].encode("latin1")
        ver = None if case["version"] is None else case["version"].encode("latin1")
        key = f"head:method={case['mclass']}" if case["mclass"] != "valid" else f"head:version={case['vclass']}"
        chk.case(f"head:method={case['mclass']}:version={case['vclass']}")
        run_wellframed("echo", m, _method_schema("echo"), [["x"]], {}, ver, key, {"method": case["method"], "version": case["version"]})
    # ---- leg 3: arbitrary columns -------------------------------------------------------------------
    for i in range(job["column_cases"]):
        name = rng.choice(sorted(KIND))
        schema, cols, cclass = _gen_columns(rng)
        key = "columns"
        chk.case(f"columns:{name}:{cclass}:{'/'.join(str(f.type) for f in schema)[:60]}")
        try:
            data_ok = True
            _req(name.encode(), schema, cols, {})
        except Exception:  # noqa: BLE001  - pyarrow refused to build it: not a well-framed request
            data_ok = False
        if not data_ok:
            chk.skip("generator_could_not_build_batch")
            continue
        run_wellframed(name, name.encode(), schema, cols, {}, b"1", key, {"method": name, "schema": str(schema), "rows": len(cols[0]) if cols else 0})
    # ---- leg 4: truncation / corruption --------------------------------------------------------------
    import pyarrow as pa

    base = _req(b"typed", _method_schema("typed"), [[7], ["abc"]], {})
    cuts = sorted({0, 4, 8, len(base) - 8, len(base) - 4, len(base) - 1, *[rng.randrange(1, len(base)) for _ in range(job["cut_cases"])]})
    jobs4 = [("truncate", c) for c in cuts] + [("corrupt", rng.randrange(len(base))) for _ in range(job["corrupt_cases"])]
    for kindc, pos in jobs4:
        drop()
        c = conn()
        if kindc == "truncate":
            data = base[:pos]
            pclass = "empty" if pos == 0 else ("head" if pos < 16 else ("tail" if pos > len(base) - 16 else "middle"))
        else:
            b = bytearray(base)
            b[pos] ^= 1 << rng.randrange(8)
            data = bytes(b)
            pclass = "head" if pos < 16 else ("tail" if pos > len(base) - 16 else "middle")
        key = f"{kindc}:{pclass}"
        chk.case(key + f":{pos % 8}")
        wit = {"kind": kindc, "pos": pos, "len": len(base)}
        import socket as _s

        c.send(data)
        with contextlib.suppress(OSError):
            c.c.shutdown(_s.SHUT_WR)
        st, batches = c.read_stream()
        if st == "timeout":
            judge_timeout(c, key, wit)
        elif st == "ok":
            chk.hit("corrupt_answered")
        elif st == "eof":
            chk.hit("corrupt_connection_closed")
        else:
            chk.hit("corrupt_reply_undecodable")
            chk.skip("corrupt_request_got_undecodable_reply")
        drop()
        # The same bytes from a peer that keeps its write side open and waits for the reply.  Judged only when the
        # bytes do not ask for more input: either they still parse as a complete request stream, or the IPC reader
        # rejects them outright (not with an unexpected end of data) - a reader that wants more bytes may wait.
        need = _wants_more_input(data)
        if kindc == "corrupt" and need in ("complete", "rejected"):
            c = conn()
            c.send(data)
            st, batches = c.read_stream()
            chk.case(f"{key}:peer_keeps_writing_side_open:{need}")
            chk.hit("corrupt_peer_waiting_judged")
            if st == "timeout":
                judge_timeout(c, f"{key}:peer_keeps_write_side_open", {**wit, "local_reading": need})
            drop()
    _ = pa
    drop()
    with contextlib.suppress(Exception):
        seg.unlink()
    with contextlib.suppress(Exception):
        seg.close()
    with contextlib.suppress(Exception):
        foreign.close()
        foreign.unlink()
    return chk.to_result()


def build_jobs(tier: str, seed: int, nshards: int) -> list[dict[str, Any]]:
    rng = random.Random(seed)
    meta: list[dict[str, Any]] = []
    methods = ["echo", "typed", "prod", "prodh", "xch", "noargs"]
    for k in METADATA_KEYS:
        ks = k.decode("latin1")
        vals = HOSTILE_VALUES["number"] if (b"size" in k or b"offset" in k or b"length" in k) else HOSTILE_VALUES["text"]
        for v in vals:
            for m in methods if tier == "thorough" else [rng.choice(methods), "echo"]:
                meta.append({"method": m, "key": ks, "vclass": _vclass(v), "value": v.decode("latin1")})
    for nm in ("real", "foreign", "missing", "slash"):
        for size in ["262144", "8192", "1", "0", "-5", "abc", "99999999999999", ""]:
            for m in ["echo", "typed", "prod", "blob"]:
                meta.append({"method": m, "key": "vgi_rpc.shm_segment_name", "vclass": nm, "value": "", "with_size": size})
    for nm in ("real", "foreign", "missing"):
        for off in ["0", "70000", "-1", "262144", "999999999", "abc"]:
            for ln in ["0", "16", "-1", "70000"]:
                meta.append({"method": rng.choice(["echo", "blob", "prod"]), "key": "vgi_rpc.shm_offset", "vclass": f"off={_vclass(off.encode())}:len={_vclass(ln.encode())}", "value": off, "with_name": nm, "with_size": "262144"})
                meta[-1]["key"] = "vgi_rpc.shm_offset"
                meta.append({"method": "echo", "key": "vgi_rpc.shm_length", "vclass": f"len={_vclass(ln.encode())}", "value": ln, "with_name": nm, "with_size": "262144"})
    pointer: list[dict[str, Any]] = []
    for m in ["echo", "typed", "blob", "prod"]:
        for nm in ("real", "foreign", "missing"):
            for how in ("allocated", "unregistered", "garbage", "truncated"):
                pointer.append({"method": m, "how": how, "name": nm})
            for off, ln in [("0", "16"), ("4096", "0"), ("262100", "4096"), ("-8", "64"), ("abc", "16"), ("16", "abc"), ("99999999999", "8"), ("4096", "-1")]:
                pointer.append({"method": m, "how": "numbers", "name": nm, "off": off, "len": ln})
    head: list[dict[str, Any]] = []
    mvals = [("valid", "echo"), ("unknown", "nope"), ("empty", ""), ("nonutf8", "\xff\xfe"), ("long", "m" * 5000), ("absent", None), ("describe", "__describe__"), ("transport_options", "__transport_options__")]
    vvals = [("one", "1"), ("absent", None), ("two", "2"), ("empty", ""), ("nonutf8", "\xff"), ("spaced", " 1"), ("long", "1" * 300)]
    for mc, m in mvals:
        for vc, v in vvals:
            head.append({"mclass": mc, "method": m, "vclass": vc, "version": v})
    rng.shuffle(meta)
    if tier == "quick":
        meta = meta[:700]
    out = []
    for i in range(nshards):
        out.append(
            {
                "tier": tier,
                "seed": seed * 1000 + i,
                "meta_cases": meta[i::nshards],
                "pointer_cases": pointer[i::nshards],
                "head_cases": head[i::nshards],
                "column_cases": (400 if tier == "quick" else 20000) // nshards,
                "cut_cases": (40 if tier == "quick" else 400) // nshards + 1,
                "corrupt_cases": (120 if tier == "quick" else 4000) // nshards + 1,
            }
        )
    return out


def _vclass(v: bytes) -> str:
    if v == b"":
        return "empty"
    try:
        s = v.decode()
    except UnicodeDecodeError:
        return "nonutf8"
    try:
        n = int(s)
        return "neg" if n < 0 else ("zero" if n == 0 else ("huge" if n > 10**12 else "posint"))
    except ValueError:
        pass
    if len(s) > 100:
        return "long"
    return "text"


def main(tier: str, seed: int) -> int:
    chk = Check(PID, tier, seed, level=CATEGORY, rule=RULE)
    chk.require("reply_decoded", "typed_error_reply", "success_reply", "probe_ok", "corrupt_connection_closed", "corrupt_peer_waiting_judged")
    n = shard.ncpu()
    for res in shard.pmap("checks.c05", "run_shard", build_jobs(tier, seed, n), timeout=600 if tier == "quick" else 1700):
        chk.merge(res)
    chk.sample({"metadata_keys": [k.decode("latin1") for k in METADATA_KEYS[:8]], "hostile_values": [v.decode("latin1") for v in HOSTILE_VALUES["number"]]})
    return chk.finish()

"""C39 - introspection is faithful and the protocol hash is a stable identity.

Generated service definitions (lib.svcgen programs: 1-5 methods, unary / producer / exchange /
raw-StreamState streams, parameters over the supported annotation grammar, defaults, docstrings
with ``Args:`` sections, header dataclasses, optional ``protocol_version``) are served for real
and described through ``vgi_rpc.introspect.introspect`` (pipe) and ``http_introspect`` (WSGI).

Oracles
  F  faithful: the ``ServiceDescription`` equals the definition - exactly the declared methods,
     kinds, has_return, parameter schema (reference model lib.models.typemap, written from the
     docs), header flag / schema, exchange flag, protocol name / version / server id / hash; the
     described *result* schema equals the schema of an actual response observed on the wire, the
     described header schema equals the schema of an actual header stream.
  V  ``__describe__`` stays callable when client and server ``protocol_version`` disagree, while an
     ordinary method is refused on the same connection (shows the gate was live).
  H= the hash is identical across server ids, docstring edits, default edits and fresh interpreter
     processes started with different ``PYTHONHASHSEED`` values.
  H! for a single-point edit the hash changes iff the wire description (model) changes: rename,
     retype, nullability flip, parameter add / drop / reorder, return change, unary<->stream,
     producer<->exchange<->raw state, header add / remove / change, method add / drop, protocol name.
State-class changes that keep the kind, method declaration order and ``protocol_version`` edits
are generated but only recorded (not visible in / documented as excluded from the hash).
"""

from __future__ import annotations

import contextlib
import copy
import random
from typing import Any

from lib import shard
from lib.evidence import Check

PID = "C39"
ENGINE = "E1-svcgen-rig+E2-raw-drivers+E5-models"
TECHNIQUE = "describe output vs generated definition and wire observations; hash (in)sensitivity under single-point edits and across processes"
LEVEL_TEXT = (
    "Exploration: generated service definitions were served and described over a pipe and over HTTP; every field of "
    "the description was compared with the definition (parameter schemas against a model of the documented type "
    "mapping, result / header schemas against schemas observed on the wire); the protocol hash was compared across "
    "server ids, docstring / default edits, interpreter processes with different PYTHONHASHSEED, and across single-"
    "point wire-relevant edits. Held means no counterexample among the definitions and edits listed in the evidence."
)
LEVEL_NOTE = "hash collision freedom is only sampled (edit pairs), not established; the type-mapping model is trusted"
CATEGORY = "exploration"
RULE = (
    "case = (oracle, definition, edit); definitions: 1-5 methods x {unary, producer, exchange, raw stream state} x "
    "0-3 parameters from tygen.gen_spec depth 1 x defaults x docstrings x header class x protocol_version; edits: one "
    "of 16 wire-relevant and 6 wire-irrelevant single-point edit kinds; distinct class = (oracle, transport or edit "
    "kind, touched method kind)"
)

HDR_FIELDS: dict[str, list[tuple[str, tuple[Any, ...]]]] = {
    "Hdr": [("label", ("str",)), ("n", ("int",))],
    "Hdr2": [("label", ("str",)), ("n", ("int",)), ("extra", ("float",))],  # extra has a default (not wire-visible)
    "HdrOpt": [("label", ("opt", ("str",))), ("n", ("int",))],
    "HdrRen": [("title", ("str",)), ("n", ("int",))],
}
_HDR_CLASSES: dict[str, Any] = {}


def hdr_classes() -> dict[str, Any]:
    if not _HDR_CLASSES:
        import dataclasses

        from lib import svcgen, tygen
        from vgi_rpc.utils import ArrowSerializableDataclass

        _HDR_CLASSES["Hdr"] = svcgen.Hdr
        for name, fields in HDR_FIELDS.items():
            if name == "Hdr":
                continue
            # fields beyond (label, n) get defaults so that the scripted implementation can build the header
            dfields = [(n, tygen.resolve(s)) if n in ("label", "n") else (n, tygen.resolve(s), dataclasses.field(default=tygen.gen_value(s, random.Random(1)))) for n, s in fields]
            dfields.sort(key=len)
            _HDR_CLASSES[name] = dataclasses.make_dataclass(name, dfields, bases=(ArrowSerializableDataclass,), frozen=True)
    return _HDR_CLASSES


@contextlib.contextmanager
def _header_class(name: str) -> Any:
    """svcgen emits the literal name ``Hdr``; bind it to another header dataclass while building."""
    from lib import svcgen

    old = svcgen.Hdr
    svcgen.Hdr = hdr_classes()[name]
    try:
        yield
    finally:
        svcgen.Hdr = old


def build(program: dict[str, Any]) -> tuple[Any, Any]:
    from lib import svcgen

    with _header_class(program.get("hdr", "Hdr")):
        return svcgen.build(program)


# ---------------------------------------------------------------------------
# definitions
# ---------------------------------------------------------------------------

_DOCS = [None, "Short summary.", "Summary line.\n\nLonger text with unicode é and \"quotes\".", "x" * 200]


def _doc(params: list[tuple[Any, ...]], rng: random.Random) -> str | None:
    d = rng.choice(_DOCS)
    if d is not None and params and rng.random() < 0.5:
        d += "\n\nArgs:\n" + "".join(f"    {p[0]}: describes {p[0]} ({rng.randint(0, 99)})\n" for p in params)
    return d


def gen_method(rng: random.Random, name: str) -> dict[str, Any]:
    from lib import tygen

    kind = rng.choice(["unary", "unary", "producer", "exchange"])
    params: list[tuple[Any, ...]] = []
    for j in range(rng.choice([0, 1, 1, 2, 3])):
        spec = tygen.gen_spec(rng, 1)
        if rng.random() < 0.35:
            params.append((f"p{j}", spec, True, tygen.gen_value(spec, rng)))
        else:
            params.append((f"p{j}", spec))
    params.sort(key=lambda p: len(p) > 2)
    m: dict[str, Any] = {"name": name, "kind": kind, "params": params, "doc": _doc(params, rng)}
    if kind == "unary":
        ret = rng.choice([None, None, ("int",), ("str",), ("float",), ("bool",), ("bytes",), ("opt", ("str",)), ("list", ("int",)), ("enum", "Color"), ("dc", "Point"), ("arrow", "int32"), ("dict", ("str",), ("float",))])
        m["ret"] = ret
        m["u"] = {"logs": [], "act": ("return", None if ret is None else tygen.gen_value(ret, rng))}
        return m
    m["header"] = rng.random() < 0.45
    m["out_cols"] = ["i"]
    m["in_cols"] = ["i"]
    m["init"] = {"logs": [], "act": ("ok",)}
    m["steps"] = [{"logs": [], "act": "emit", "rows": 1}] if kind == "producer" else [{"logs": [], "act": "emit"}]
    if rng.random() < 0.15:
        m["raw_state"] = True  # Protocol says Stream[StreamState]: exchange flag unknown
    return m


def gen_definition(rng: random.Random, idx: int) -> dict[str, Any]:
    n = rng.choice([1, 2, 3, 4, 5])
    methods = [gen_method(rng, f"m{idx}_{k}") for k in range(n)]
    rng.shuffle(methods)
    prog: dict[str, Any] = {"name": f"Svc{idx}", "methods": methods, "doc": rng.choice(_DOCS), "hdr": rng.choice(["Hdr", "Hdr", "Hdr2", "HdrOpt"])}
    if rng.random() < 0.4:
        prog["version"] = rng.choice(["1.2.3", "0.1.0", "10.20.30"])
    return prog


# ---------------------------------------------------------------------------
# model of the wire description
# ---------------------------------------------------------------------------


def model(program: dict[str, Any]) -> dict[str, Any]:
    """Expected wire-relevant description of *program* (protocol name + per-method wire facts)."""
    from lib.models import typemap

    methods = {}
    for m in program["methods"]:
        stream = m["kind"] != "unary"
        rf = None if stream else typemap.result_field(m.get("ret"))
        has_header = bool(stream and m.get("header"))
        methods[m["name"]] = {
            "method_type": "stream" if stream else "unary",
            "has_return": (not stream) and m.get("ret") is not None,
            "params": typemap.params_schema(m["params"]),
            "result": rf,
            "result_is_dc": (not stream) and m.get("ret") is not None and (m["ret"][0] == "dc" or (m["ret"][0] == "opt" and m["ret"][1][0] == "dc")),
            "has_header": has_header,
            "header": typemap.fields_schema(HDR_FIELDS[program.get("hdr", "Hdr")]) if has_header else None,
            "is_exchange": None if (not stream or m.get("raw_state")) else (m["kind"] == "exchange"),
        }
    return {"name": program["name"], "methods": methods}


def canon(mod: dict[str, Any], *, strict: bool = False) -> str:
    """Canonical text of a model (also used to make sure two processes generated the same definition).

    The docs do not say whether the ``result`` column of a dataclass return is nullable; ``strict`` marks such
    results so that an edit whose only effect is bytes <-> dataclass in a return position can be left unjudged.
    """
    parts = [mod["name"]]
    for name in sorted(mod["methods"]):
        e = mod["methods"][name]
        fs = lambda sch: "" if sch is None else ";".join(f"{f.name}:{f.type}:{int(f.nullable)}" for f in sch)  # noqa: E731
        rf = e["result"]
        parts.append(
            f"{name}|{e['method_type']}|{int(e['has_return'])}|{fs(e['params'])}|"
            f"{'' if rf is None else f'{rf.type}:{int(rf.nullable)}'}{'(dataclass)' if strict and e.get('result_is_dc') else ''}|"
            f"{int(e['has_header'])}|{fs(e['header'])}|{e['is_exchange']}"
        )
    return "\n".join(parts)


# ---------------------------------------------------------------------------
# edits
# ---------------------------------------------------------------------------

EDITS = [
    "rename_method", "rename_param", "retype_param", "nullability_flip", "reorder_params", "add_param", "drop_param",
    "ret_change", "kind_unary_stream", "kind_producer_exchange", "kind_raw_state", "header_toggle", "header_class",
    "add_method", "drop_method", "protocol_name",
    "doc_method", "doc_protocol", "doc_args", "default_change", "default_remove", "default_add",
    "state_class_same_kind", "method_order", "protocol_version",
]
UNJUDGED_EDITS = {"state_class_same_kind", "method_order", "protocol_version"}


def apply_edit(program: dict[str, Any], kind: str, rng: random.Random) -> tuple[dict[str, Any], str] | None:
    """Return (edited program, touched method kind) or None when the edit does not apply."""
    from lib import tygen

    p = copy.deepcopy(program)
    ms = p["methods"]
    m = rng.choice(ms)
    mk = m["kind"]

    def with_params() -> dict[str, Any] | None:
        c = [x for x in ms if x["params"]]
        return rng.choice(c) if c else None

    if kind == "rename_method":
        m["name"] = m["name"] + "_r"
    elif kind == "rename_param":
        mm = with_params()
        if mm is None:
            return None
        i = rng.randrange(len(mm["params"]))
        mm["params"][i] = (mm["params"][i][0] + "z", *mm["params"][i][1:])
        mm["doc"] = None
        mk = mm["kind"]
    elif kind == "retype_param":
        mm = with_params()
        if mm is None:
            return None
        i = rng.randrange(len(mm["params"]))
        new = tygen.gen_spec(rng, 1)
        mm["params"][i] = (mm["params"][i][0], new)
        mm["params"].sort(key=lambda q: len(q) > 2)
        mk = mm["kind"]
    elif kind == "nullability_flip":
        mm = with_params()
        if mm is None:
            return None
        i = rng.randrange(len(mm["params"]))
        q = mm["params"][i]
        spec = q[1][1] if q[1][0] == "opt" else ("opt", q[1])
        mm["params"][i] = (q[0], spec)
        mm["params"].sort(key=lambda q: len(q) > 2)
        mk = mm["kind"]
    elif kind == "reorder_params":
        c = [x for x in ms if len(x["params"]) >= 2 and all(len(q) == 2 for q in x["params"])]
        if not c:
            return None
        mm = rng.choice(c)
        i, j = rng.sample(range(len(mm["params"])), 2)
        mm["params"][i], mm["params"][j] = mm["params"][j], mm["params"][i]
        mk = mm["kind"]
    elif kind == "add_param":
        m["params"] = [(f"q{len(m['params'])}", tygen.gen_spec(rng, 1)), *m["params"]]
        m["doc"] = None
    elif kind == "drop_param":
        mm = with_params()
        if mm is None:
            return None
        del mm["params"][rng.randrange(len(mm["params"]))]
        mm["doc"] = None
        mk = mm["kind"]
    elif kind == "ret_change":
        c = [x for x in ms if x["kind"] == "unary"]
        if not c:
            return None
        mm = rng.choice(c)
        new = rng.choice([None, ("int",), ("str",), ("opt", ("int",)), ("arrow", "int32"), ("list", ("int",)), ("set", ("int",)), ("dc", "Point"), ("dc", "Named")])
        mm["ret"] = new
        mm["u"] = {"logs": [], "act": ("return", None if new is None else tygen.gen_value(new, rng))}
        mk = "unary"
    elif kind == "kind_unary_stream":
        if mk == "unary":
            m.update(kind="producer", header=False, out_cols=["i"], in_cols=["i"], init={"logs": [], "act": ("ok",)}, steps=[{"logs": [], "act": "emit", "rows": 1}])
            m.pop("ret", None)
            m.pop("u", None)
        else:
            for k in ("header", "out_cols", "in_cols", "init", "steps", "raw_state", "state"):
                m.pop(k, None)
            m.update(kind="unary", ret=None, u={"logs": [], "act": ("return", None)})
    elif kind == "kind_producer_exchange":
        c = [x for x in ms if x["kind"] != "unary" and not x.get("raw_state")]
        if not c:
            return None
        mm = rng.choice(c)
        mk = mm["kind"]
        mm["kind"] = "exchange" if mm["kind"] == "producer" else "producer"
        mm["steps"] = [{"logs": [], "act": "emit", "rows": 1}] if mm["kind"] == "producer" else [{"logs": [], "act": "emit"}]
    elif kind == "kind_raw_state":
        c = [x for x in ms if x["kind"] != "unary"]
        if not c:
            return None
        mm = rng.choice(c)
        mk = mm["kind"]
        mm["raw_state"] = not mm.get("raw_state")
    elif kind == "header_toggle":
        c = [x for x in ms if x["kind"] != "unary"]
        if not c:
            return None
        mm = rng.choice(c)
        mk = mm["kind"]
        mm["header"] = not mm.get("header")
    elif kind == "header_class":
        if not any(x["kind"] != "unary" and x.get("header") for x in ms):
            return None
        p["hdr"] = rng.choice([h for h in HDR_FIELDS if h != p.get("hdr", "Hdr")])
        mk = "stream"
    elif kind == "add_method":
        ms.append(gen_method(rng, "zz_added"))
        mk = ms[-1]["kind"]
    elif kind == "drop_method":
        if len(ms) < 2:
            return None
        ms.remove(m)
    elif kind == "protocol_name":
        p["name"] = p["name"] + "X"
        mk = "protocol"
    elif kind == "doc_method":
        m["doc"] = (m.get("doc") or "") + " Edited."
    elif kind == "doc_protocol":
        p["doc"] = (p.get("doc") or "") + " Edited protocol doc."
        mk = "protocol"
    elif kind == "doc_args":
        mm = with_params()
        if mm is None:
            return None
        mm["doc"] = "Sum.\n\nArgs:\n" + "".join(f"    {q[0]}: new text {rng.randint(100, 999)}\n" for q in mm["params"])
        mk = mm["kind"]
    elif kind == "default_change":
        c = [(x, i) for x in ms for i, q in enumerate(x["params"]) if len(q) > 2]
        if not c:
            return None
        mm, i = rng.choice(c)
        q = mm["params"][i]
        mm["params"][i] = (q[0], q[1], True, tygen.gen_value(q[1], rng))
        mk = mm["kind"]
    elif kind == "default_remove":
        # only the first defaulted parameter can lose its default without reordering the columns
        c = [x for x in ms if any(len(q) > 2 for q in x["params"])]
        if not c:
            return None
        mm = rng.choice(c)
        i = next(k for k, q in enumerate(mm["params"]) if len(q) > 2)
        mm["params"][i] = (mm["params"][i][0], mm["params"][i][1])
        mk = mm["kind"]
    elif kind == "default_add":
        c = [(x, i) for x in ms for i, q in enumerate(x["params"]) if len(q) == 2 and all(len(r) > 2 for r in x["params"][i + 1 :])]
        if not c:
            return None
        mm, i = rng.choice(c)
        q = mm["params"][i]
        mm["params"][i] = (q[0], q[1], True, tygen.gen_value(q[1], rng))
        mk = mm["kind"]
    elif kind == "state_class_same_kind":
        c = [x for x in ms if x["kind"] == "producer" and not x.get("raw_state")]
        if not c:
            return None
        mm = rng.choice(c)
        mm["state"] = "PState2" if mm.get("state", "PState") == "PState" else "PState"
        mk = "producer"
    elif kind == "method_order":
        if len(ms) < 2:
            return None
        ms.reverse()
        mk = "protocol"
    elif kind == "protocol_version":
        p["version"] = "3.4.5" if p.get("version") != "3.4.5" else "3.5.0"
        mk = "protocol"
    else:
        raise ValueError(kind)
    return p, mk


# ---------------------------------------------------------------------------
# shard: everything that needs the repository
# ---------------------------------------------------------------------------


def hash_of(program: dict[str, Any], server_id: str | None = None) -> str:
    from vgi_rpc.rpc import RpcServer

    proto, impl = build(program)
    return str(RpcServer(proto, impl, server_id=server_id).protocol_hash)


def hash_worker(job: dict[str, Any]) -> dict[str, Any]:
    """Fresh-interpreter leg: regenerate the same definitions from the seeds and report their hashes."""
    import sys
    import warnings

    warnings.filterwarnings("ignore")
    out = {}
    for seed, idx in job["defs"]:
        program = gen_definition(random.Random(seed), idx)
        out[str(idx)] = {"hash": hash_of(program), "model": canon(model(program))}
    return {"hashes": out, "hashseed": sys.flags.hash_randomization, "env_hashseed": __import__("os").environ.get("PYTHONHASHSEED")}


def run_shard(job: dict[str, Any]) -> dict[str, Any]:
    import warnings

    warnings.filterwarnings("ignore")
    import logging

    logging.disable(logging.CRITICAL)
    import threading

    from lib import httpdrv, tygen
    from vgi_rpc.http import http_connect, http_introspect
    from vgi_rpc.http._testing import make_sync_client
    from vgi_rpc.introspect import DESCRIBE_VERSION, introspect
    from vgi_rpc.rpc import RpcConnection, RpcError, RpcServer, make_pipe_pair

    chk = Check(PID, job["tier"], job["seed"])
    rng = random.Random(job["seed"] ^ 0xC39)
    hashes: dict[str, Any] = {}

    def describe_both(program: dict[str, Any], server_id: str) -> list[tuple[str, Any, Any, Any]]:
        """[(transport, ServiceDescription | exception, server, impl)] for pipe and HTTP."""
        out = []
        proto, impl = build(program)
        server = RpcServer(proto, impl, server_id=server_id, enable_describe=True)
        ct, st = make_pipe_pair()
        th = threading.Thread(target=_serve_quiet, args=(server, st), daemon=True)
        th.start()
        box: list[Any] = []

        def ask() -> None:
            try:
                box.append(introspect(ct))
            except Exception as exc:  # noqa: BLE001
                box.append(exc)

        asker = threading.Thread(target=ask, daemon=True)
        asker.start()
        asker.join(30)
        try:
            if box:
                out.append(("pipe", box[0], server, impl))
            elif not th.is_alive():
                out.append(("pipe", RuntimeError("serve thread ended without answering __describe__"), server, impl))
            else:
                chk.inconclusive_because("pipe introspect watchdog fired while the serve thread is still alive")
        finally:
            ct.close()
            th.join(5)
            with contextlib.suppress(Exception):
                st.close()
        proto2, impl2 = build(program)
        server2 = RpcServer(proto2, impl2, server_id=server_id, enable_describe=True)
        client = make_sync_client(server2, token_key=b"k" * 32)
        try:
            out.append(("http", http_introspect(client=client), server2, impl2))
        except Exception as exc:  # noqa: BLE001
            out.append(("http", exc, server2, impl2))
        return out

    for seed, idx in job["defs"]:
        program = gen_definition(random.Random(seed), idx)
        mod = model(program)
        base_hash = hash_of(program)
        hashes[str(idx)] = {"hash": base_hash, "model": canon(mod)}
        kinds = sorted({m["kind"] + ("+raw" if m.get("raw_state") else "") + ("+hdr" if m.get("header") else "") for m in program["methods"]})
        wit0 = {"definition": describe_program(program, tygen)}

        # ---- F: faithful description over pipe and HTTP
        sid = f"srv{idx:06d}x"
        for transport, desc, server, impl in describe_both(program, sid):
            for k in kinds:
                chk.case(f"faithful:{transport}:{k}")
            chk.hit(f"described:{transport}")
            if isinstance(desc, BaseException):
                chk.violation(f"describe_failed:{transport}:{type(desc).__name__}", f"__describe__ failed: {str(desc)[:160]}", wit0)
                continue
            problems = compare_description(desc, program, mod, server, sid, DESCRIBE_VERSION)
            for key, what in problems:
                chk.violation(f"describe_unfaithful:{key}", what, {**wit0, "transport": transport, "described": str(desc)[:1500]})
            if transport == "http":
                wire_schemas(chk, program, mod, desc, server, impl, httpdrv, tygen, wit0)

        # ---- V: describe under protocol-version mismatch
        if program.get("version") and any(m["kind"] == "unary" and not m["params"] for m in program["methods"]):
            version_leg(chk, program, RpcServer, RpcConnection, RpcError, make_pipe_pair, make_sync_client, http_connect, http_introspect, introspect, wit0)

        # ---- H=: server ids
        chk.case("hash_equal:server_id")
        chk.hit("hash_equal_judged")
        h2 = hash_of(program, server_id="another-server-id")
        h3 = hash_of(program, server_id="")
        if not (base_hash == h2 == h3):
            chk.violation("hash_depends_on:server_id", "protocol hash differs between server ids", {**wit0, "hashes": [base_hash, h2, h3]})
        if len(base_hash) != 64 or any(c not in "0123456789abcdef" for c in base_hash):
            chk.violation("hash_not_sha256_hex", "protocol hash is not a 64-char lowercase hex digest", {"hash": base_hash})

        # ---- H= / H!: single-point edits
        for ek in job["edits"]:
            ed = apply_edit(program, ek, rng)
            if ed is None:
                chk.skip(f"edit_not_applicable:{ek}")
                continue
            edited, mk = ed
            try:
                eh = hash_of(edited)
            except Exception as exc:  # noqa: BLE001 - an edited definition the framework refuses to serve
                chk.skip(f"edited_definition_rejected:{ek}:{type(exc).__name__}")
                continue
            same_model = canon(model(edited)) == canon(mod)
            wit = {**wit0, "edit": ek, "edited": describe_program(edited, tygen), "hash": base_hash, "edited_hash": eh, "model_equal": same_model}
            if ek in UNJUDGED_EDITS:
                chk.skip(f"edit_recorded:{ek}:{'hash_same' if eh == base_hash else 'hash_changed'}")
                continue
            if same_model and canon(model(edited), strict=True) != canon(mod, strict=True):
                chk.skip(f"edit_recorded:{ek}:bytes_vs_dataclass_result_nullability_unspecified:{'hash_same' if eh == base_hash else 'hash_changed'}")
                continue
            # ---- I: the same edited surface declared as a Protocol that EXTENDS the original one, built
            # after the original in this process: its identity must be that of the flat declaration
            if {m["name"] for m in program["methods"]} <= {m["name"] for m in edited["methods"]}:
                try:
                    from typing import Protocol as _P

                    proto_a, impl_a = build(program)
                    RpcServer(proto_a, impl_a)  # the original is built (and anything cached) first
                    proto_b, impl_b = build(edited)
                    ns = {k: v for k, v in vars(proto_b).items() if not (k.startswith("__") and k not in ("__doc__", "__annotations__")) and not k.startswith("_abc") and k not in ("_is_protocol", "_is_runtime_protocol")}
                    sub = type(proto_b.__name__, (proto_a, _P), ns)
                    sub.__module__ = proto_b.__module__
                    srv_sub = RpcServer(sub, impl_b)
                    chk.case(f"hash_inherited_protocol:{ek}:{'irrelevant' if same_model else 'relevant'}")
                    chk.hit("inherited_protocol_judged")
                    if srv_sub.protocol_hash != eh:
                        chk.violation(
                            "hash_depends_on:protocol_inheritance",
                            "a Protocol that extends another one (built earlier in the process) does not get the hash of the same surface declared flat",
                            {**wit, "inherited_hash": srv_sub.protocol_hash},
                        )
                    want = {(m["name"]) for m in edited["methods"]}
                    got = {n for n in srv_sub.methods if not n.startswith("__")}
                    if got != want:
                        chk.violation("describe_unfaithful:inherited_protocol_methods", f"methods of an extending Protocol: {sorted(got)} != {sorted(want)}", wit)
                except TypeError as exc:
                    chk.skip(f"inherited_protocol_not_constructible:{type(exc).__name__}")
            chk.case(f"hash_edit:{ek}:{mk}:{'irrelevant' if same_model else 'relevant'}")
            if same_model:
                chk.hit("hash_equal_judged")
                if eh != base_hash:
                    chk.violation(f"hash_depends_on:{ek}", "protocol hash changed although no wire-relevant detail changed", wit)
            else:
                chk.hit("hash_differs_judged")
                if eh == base_hash:
                    chk.violation(f"hash_blind_to:{ek}", "protocol hash unchanged after a wire-relevant edit", wit)
        if chk.rng.random() < 0.25:
            chk.sample({**wit0, "hash": base_hash})
    res = chk.to_result()
    res["hashes"] = hashes
    return res


def _serve_quiet(server: Any, transport: Any) -> None:
    try:
        server.serve(transport)
    except Exception:  # noqa: BLE001
        pass


def describe_program(program: dict[str, Any], tygen: Any) -> dict[str, Any]:
    return {
        "name": program["name"],
        "version": program.get("version"),
        "hdr": program.get("hdr"),
        "methods": [
            {
                "name": m["name"],
                "kind": m["kind"] + ("+raw_state" if m.get("raw_state") else "") + ("+header" if m.get("header") else ""),
                "params": [f"{p[0]}: {tygen.src(p[1])}{' = <default>' if len(p) > 2 else ''}" for p in m["params"]],
                "ret": None if m.get("ret") is None else tygen.src(m["ret"]),
                "state": m.get("state"),
            }
            for m in program["methods"]
        ],
    }


def compare_description(desc: Any, program: dict[str, Any], mod: dict[str, Any], server: Any, sid: str, describe_version: str) -> list[tuple[str, str]]:
    out: list[tuple[str, str]] = []
    if desc.protocol_name != program["name"]:
        out.append(("protocol_name", f"protocol_name {desc.protocol_name!r} != {program['name']!r}"))
    if desc.server_id != sid:
        out.append(("server_id", f"server_id {desc.server_id!r} != {sid!r}"))
    if desc.protocol_version != (program.get("version") or ""):
        out.append(("protocol_version", f"protocol_version {desc.protocol_version!r} != {program.get('version')!r}"))
    if desc.request_version != "1":
        out.append(("request_version", f"request_version {desc.request_version!r}"))
    if desc.describe_version != describe_version:
        out.append(("describe_version", f"describe_version {desc.describe_version!r}"))
    if desc.protocol_hash != server.protocol_hash:
        out.append(("protocol_hash", "described protocol_hash differs from RpcServer.protocol_hash"))
    exp = mod["methods"]
    if set(desc.methods) != set(exp):
        out.append(("method_set", f"described methods {sorted(desc.methods)} != declared {sorted(exp)}"))
    for name in set(desc.methods) & set(exp):
        d, e = desc.methods[name], exp[name]
        if d.name != name:
            out.append(("method_name", f"{name}: described name {d.name!r}"))
        if d.method_type.value != e["method_type"]:
            out.append(("method_type", f"{name}: method_type {d.method_type.value} != {e['method_type']}"))
        if bool(d.has_return) != e["has_return"]:
            out.append(("has_return", f"{name}: has_return {d.has_return} != {e['has_return']}"))
        if not d.params_schema.equals(e["params"], check_metadata=True):
            out.append(("params_schema", f"{name}: params schema [{d.params_schema}] != [{e['params']}]"))
        if bool(d.has_header) != e["has_header"]:
            out.append(("has_header", f"{name}: has_header {d.has_header} != {e['has_header']}"))
        if (d.header_schema is None) != (e["header"] is None) or (d.header_schema is not None and not d.header_schema.equals(e["header"], check_metadata=True)):
            out.append(("header_schema", f"{name}: header schema [{d.header_schema}] != [{e['header']}]"))
        if d.is_exchange != e["is_exchange"] or (d.is_exchange is None) != (e["is_exchange"] is None):
            out.append(("is_exchange", f"{name}: is_exchange {d.is_exchange} != {e['is_exchange']}"))
        if e["method_type"] == "stream" or e["result"] is None:
            if len(d.result_schema) != 0:
                out.append(("result_schema", f"{name}: result schema [{d.result_schema}] should be empty"))
        else:
            rf = e["result"]
            ok = len(d.result_schema) == 1 and d.result_schema.field(0).name == "result"
            if ok:
                if rf.type == __import__("pyarrow").binary() and d.result_schema.field(0).type == rf.type:
                    pass  # dataclass blob: nullability of the column is judged against the wire (wire_schemas)
                elif not d.result_schema.field(0).equals(rf):
                    ok = False
            if not ok:
                out.append(("result_schema", f"{name}: result schema [{d.result_schema}] != [result: {rf.type}{'' if rf.nullable else ' not null'}]"))
    return out


def wire_schemas(chk: Check, program: dict[str, Any], mod: dict[str, Any], desc: Any, server: Any, impl: Any, httpdrv: Any, tygen: Any, wit0: dict[str, Any]) -> None:
    """Compare described result / header schemas with schemas actually observed in HTTP responses."""
    import pyarrow as pa

    from vgi_rpc.http import make_wsgi_app

    app = make_wsgi_app(server, token_key=b"k" * 32)
    md = {b"vgi_rpc.method": b"", b"vgi_rpc.request_version": b"1"}
    if program.get("version"):
        md[b"vgi_rpc.protocol_version"] = program["version"].encode()
    for m in program["methods"]:
        d = desc.methods.get(m["name"])
        if d is None:
            continue
        # a valid request built from the *described* parameter schema
        rng = random.Random(len(m["name"]))
        arrays = []
        try:
            for p, f in zip(m["params"], d.params_schema, strict=True):
                from checks.c06 import wire_value

                arrays.append(pa.array([wire_value(p[1], tygen.gen_value(p[1], rng))], type=f.type))
            batch = pa.RecordBatch.from_arrays(arrays, schema=d.params_schema) if arrays else pa.RecordBatch.from_pydict({}, schema=pa.schema([]))
        except Exception:  # noqa: BLE001 - described schema unusable: already reported by compare_description
            continue
        md[b"vgi_rpc.method"] = m["name"].encode()
        path = f"/{m['name']}" if m["kind"] == "unary" else f"/{m['name']}/init"
        n0 = len(impl.inv)
        with _header_class(program.get("hdr", "Hdr")):  # the scripted implementation instantiates svcgen.Hdr at call time
            resp = httpdrv.call(app, "POST", path, {"Content-Type": httpdrv.ARROW_CT}, httpdrv.ipc_bytes(batch, md))
        ran = len(impl.inv) > n0
        chk.case(f"wire_schema:{m['kind']}")
        if resp.status != 200 or resp.header("X-VGI-RPC-Error") or not ran:
            chk.violation(
                f"described_params_not_accepted:{m['kind']}",
                "a request built from the described parameter schema was not dispatched",
                {**wit0, "method": m["name"], "status": resp.status, "body_error": str(httpdrv.error_of(sum(httpdrv.parse_ipc_multi(resp.decoded_body()), [])) if resp.body else None)[:300]},
            )
            continue
        chk.hit("described_params_accepted")
        streams = httpdrv.parse_ipc_multi(resp.decoded_body())
        if m["kind"] == "unary":
            observed = pa.ipc.open_stream(resp.decoded_body()).schema
            chk.hit("result_schema_vs_wire")
            if not observed.equals(d.result_schema, check_metadata=False):
                chk.violation(
                    "describe_unfaithful:result_schema_vs_wire",
                    f"described result schema [{d.result_schema}] differs from the schema of an actual response [{observed}]",
                    {**wit0, "method": m["name"]},
                )
        elif m.get("header"):
            observed = streams[0][0][0].schema if streams and streams[0] else None
            chk.hit("header_schema_vs_wire")
            if observed is None or d.header_schema is None or not observed.equals(d.header_schema, check_metadata=False):
                chk.violation(
                    "describe_unfaithful:header_schema_vs_wire",
                    f"described header schema [{d.header_schema}] differs from the schema of an actual header stream [{observed}]",
                    {**wit0, "method": m["name"]},
                )


def version_leg(chk: Check, program: dict[str, Any], RpcServer: Any, RpcConnection: Any, RpcError: Any, make_pipe_pair: Any, make_sync_client: Any, http_connect: Any, http_introspect: Any, introspect: Any, wit0: dict[str, Any]) -> None:  # noqa: N803
    import threading

    other = copy.deepcopy(program)
    other["version"] = "99.0.0" if not program["version"].startswith("99.") else "98.0.0"
    target = next(m for m in program["methods"] if m["kind"] == "unary" and not m["params"])
    # pipe: mismatching client first (refused), then __describe__ on the same connection
    proto_s, impl = build(program)
    proto_c, _ = build(other)
    server = RpcServer(proto_s, impl, enable_describe=True)
    ct, st = make_pipe_pair()
    th = threading.Thread(target=_serve_quiet, args=(server, st), daemon=True)
    th.start()
    try:
        for transport in ("pipe", "http"):
            chk.case(f"version_mismatch:{transport}")
            n0 = len(impl.inv)
            refused = False
            try:
                if transport == "pipe":
                    conn = RpcConnection(proto_c, ct)
                    proxy = conn.__enter__()
                    getattr(proxy, target["name"])()
                else:
                    client = make_sync_client(server, token_key=b"k" * 32)
                    with http_connect(proto_c, client=client) as proxy:
                        getattr(proxy, target["name"])()
            except RpcError as exc:
                refused = "ersion" in (exc.error_type + exc.error_message)
            if refused and len(impl.inv) == n0:
                chk.hit("version_gate_live")
            else:
                chk.violation(f"version_gate_not_enforced:{transport}", "a call with a mismatching protocol_version was dispatched", wit0)
            try:
                desc = introspect(ct) if transport == "pipe" else http_introspect(client=client)
                chk.hit("describe_under_version_mismatch")
                if desc.protocol_version != program["version"]:
                    chk.violation("describe_unfaithful:protocol_version", "describe under mismatch reports a wrong protocol_version", {**wit0, "got": desc.protocol_version})
            except Exception as exc:  # noqa: BLE001
                chk.violation(
                    f"describe_refused_under_version_mismatch:{transport}",
                    f"__describe__ is not callable when protocol versions disagree: {type(exc).__name__}: {str(exc)[:160]}",
                    wit0,
                )
    finally:
        with contextlib.suppress(Exception):
            ct.close()
        th.join(5)
        with contextlib.suppress(Exception):
            st.close()


def main(tier: str, seed: int) -> int:
    chk = Check(PID, tier, seed, level=CATEGORY, rule=RULE)
    chk.require(
        "inherited_protocol_judged",
        "described:pipe",
        "described:http",
        "described_params_accepted",
        "result_schema_vs_wire",
        "header_schema_vs_wire",
        "version_gate_live",
        "describe_under_version_mismatch",
        "hash_equal_judged",
        "hash_differs_judged",
        "cross_process_hash_compared",
    )
    chk.assumptions = [
        "lib.models.typemap (documented annotation -> Arrow mapping) is the reference for parameter / header schemas",
        "protocol_version, method declaration order and same-kind state-class edits are recorded only",
        "definitions are regenerated from their seeds in the fresh-interpreter legs; equality of the model text guards against generator nondeterminism",
    ]
    nsh = shard.ncpu()
    ndefs = 48 if tier == "quick" else 1500
    nshards = max(nsh, 6) if tier == "quick" else max(nsh * 2, 16)
    defs = [(seed * 1000003 + i * 101 + 7, i) for i in range(ndefs)]
    jobs = [{"tier": tier, "seed": seed * 7 + k, "defs": defs[k::nshards], "edits": EDITS} for k in range(nshards)]
    base: dict[str, Any] = {}
    for res in shard.pmap("checks.c39", "run_shard", jobs, timeout=600 if tier == "quick" else 2400):
        chk.merge(res)
        base.update(res.get("hashes", {}))
    # fresh interpreters with other hash seeds
    sub = defs if tier == "quick" else defs[:: max(1, len(defs) // 300)]
    seeds_seen = []
    for hs in ["1", "4242", "random"]:
        parts = [sub[k::2] for k in range(2)]
        for res in shard.pmap("checks.c39", "hash_worker", [{"defs": part} for part in parts], env={"PYTHONHASHSEED": hs}, timeout=600):
            if "hashes" not in res:
                chk.merge(res)
                continue
            seeds_seen.append(res.get("env_hashseed"))
            for idx, rec in res["hashes"].items():
                b = base.get(idx)
                if b is None:
                    continue
                if b["model"] != rec["model"]:
                    chk.inconclusive_because("definition generator is not deterministic across processes")
                    continue
                chk.case(f"cross_process:hashseed_{hs}")
                chk.hit("cross_process_hash_compared")
                if b["hash"] != rec["hash"]:
                    chk.violation(
                        "hash_differs_across_processes",
                        "protocol hash of the same definition differs between interpreter processes",
                        {"definition_index": idx, "PYTHONHASHSEED": hs, "hash_base": b["hash"], "hash_other": rec["hash"], "model": b["model"][:800]},
                    )
    chk.extra["hash_seeds_compared"] = ["0", *sorted(set(str(s) for s in seeds_seen))]
    chk.exhaustive["generated_definitions_and_edits"] = False
    return chk.finish()


def replay(path: str) -> int:
    """Re-execute the recorded (tier, seed) and report whether the recorded mechanism key fires again.

    Generation is a pure function of the seed, so the witness case is regenerated exactly; 1 = fired again,
    2 = diverged (reported as inconclusive / flaky), never 0.
    """
    import json
    import os

    from lib import evidence

    with open(path) as fh:
        rec = json.load(fh)
    main(rec["tier"], int(rec["seed"]))
    with open(os.path.join(evidence.EVIDENCE_DIR, f"{PID}.json")) as fh:
        cov = json.load(fh)["coverage"]
    fired = rec["key"] in cov.get("unlisted_violation_keys", []) or rec["key"] in cov.get("known_findings_seen", [])
    print(f"REPLAY property={PID} key={rec['key']} {'fired again' if fired else 'DIVERGED (inconclusive)'}")
    return 1 if fired else 2

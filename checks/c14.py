"""C14 - the call-state cache never changes a request's outcome.

Differential runtime monitoring.  A history of init / continuation / exchange /
cancel requests of several streams and identities is spread over 2-3 workers
(real WSGI apps sharing one token key, call-state cache capacities 0..3) under a
logical clock that steps across the token TTL.  Every continuation sent to a
worker W is replayed, at the same logical instant, against a reference worker R
that shares the key and has cache capacity 0 ("a worker with an empty cache").
Monitors:

* outcome(W) == outcome(R): status, decoded error, data batches, presence of a
  continuation token, and the server-side invocation entries (incl. the
  call-state ``owner`` a ``process()`` saw);
* the returned cursor tokens of W and R, opened with the harness' copy of the
  key, agree on (state bytes, call id);
* the call state seen by ``process()`` on W was minted for the requesting identity;
* W's cache content (``_CallStateCache._entries``) is read before each request
  to name the origin of a hit entry (warmed by init / refilled on a miss).

A separate leg forces call-id collisions between streams of *different*
identities (``os.urandom`` of ``_state_token`` rebound) so that the identity part
of the cache key becomes observable.
"""

from __future__ import annotations

import random
from typing import Any

from lib import shard
from lib.evidence import Check

PID = "C14"
ENGINE = "E2-raw-drivers+E1-svcgen-rig+E5-models+E3-scheduler"
TECHNIQUE = "differential replay of every continuation against a cache-0 worker under a logical clock; overlapping requests on one worker under a deterministic scheduler (DFS + PCT over cache statements)"
LEVEL_TEXT = (
    "Exploration: seeded random histories (init/continuation/exchange/cancel, honest and hostile call-token variants, several "
    "streams and identities, 2-3 workers, cache capacities 0..3, clock steps around the TTL incl. sub-second offsets) plus a "
    "forced call-id-collision leg, plus a concurrent leg (2-3 overlapping requests on one cap-1/2 worker, yield points at every statement of the cache's get/put and at its lock, bounded-preemption DFS + PCT); every continuation was replayed on a cache-0 worker at the same logical instant and the two "
    "outcomes, returned cursor contents and observed call-state owners compared. Held means no divergence on those executions."
)
LEVEL_NOTE = "logical clock substituted for `time` in _state_token/_app_stream; returned cursors opened with the repo's own opener as a tool"
CATEGORY = "exploration"
RULE = (
    "case = one continuation request of a generated history, judged against its cache-0 replay; histories are seeded random "
    "sequences over (streams<=4, identities<=4, workers 2-3, capacities 0..3, ttl in {5,20}, clock steps in {0,.5,1,ttl/2,ttl-1,ttl,ttl+1}); "
    "distinct class = (request variant, cache lookup situation before the request, reference outcome class, method kind)"
)

KEY = b"C14-shared-token-key-32-bytes!!!"
IDS = ["anon", "d_alice", "d_bob", "empty_dom_anonymous"]


def program() -> dict[str, Any]:
    emit = [{"logs": [], "act": "emit", "rows": 1} for _ in range(14)]
    return {
        "name": "CacheSvc",
        "methods": [
            {"name": "pc", "kind": "producer", "state": "PStateCS", "cs_payload": "cs", "params": [], "header": False, "out_cols": ["i"], "init": {"logs": [], "act": ("ok",)}, "steps": emit},
            {"name": "pa", "kind": "producer", "state": "PState", "params": [], "header": True, "out_cols": ["i", "s"], "init": {"logs": [], "act": ("ok",)}, "steps": emit},
            {"name": "xa", "kind": "exchange", "state": "XState", "params": [], "header": False, "out_cols": ["i"], "in_cols": ["i"], "init": {"logs": [], "act": ("ok",)}, "steps": [{"logs": [], "act": "emit"}]},
        ],
        "calls": [],
    }


IN_COLS = {"pc": None, "pa": None, "xa": ["i"]}


def _cause(o: dict[str, Any]) -> str:
    """Outcome class of one response (mechanism words only)."""
    if o["status"] == 200 and o["error"] is None:
        return "served"
    msg = (o["error"] or ("", "", None))[1] or ""
    table = [
        ("Call token expired", "call_token_expired"),
        ("State token expired", "state_token_expired"),
        ("Call token signature", "call_token_signature"),
        ("State token signature", "state_token_signature"),
        ("Missing call token", "missing_call_token"),
        ("does not belong to the supplied call token", "call_id_mismatch"),
        ("Malformed call token", "call_token_malformed"),
        ("Malformed state token", "state_token_malformed"),
        ("Failed to deserialize", "deserialize_failed"),
    ]
    for needle, name in table:
        if needle in msg:
            return f"rejected_{o['status']}_{name}"
    return f"rejected_{o['status']}_other"


def _inv_entry(e: tuple[Any, ...]) -> tuple[Any, ...]:
    if e[0] == "step":
        return ("step", e[1], e[2], e[3], e[4], e[6])  # ..., call-state owner
    return tuple(e[:4]) if e[0] != "rehydrate" else tuple(e[:3])


class World:
    def __init__(self, caps: list[int], ttl: int, clock: Any) -> None:
        from lib import svcgen
        from lib.models import tokenlab as tl

        self.tl = tl
        self.ttl = ttl
        self.clock = clock
        self.workers: list[dict[str, Any]] = []
        for cap in [*caps, 0]:
            proto, impl = svcgen.build(program())
            app, handler = tl.make_app(proto, impl, key=KEY, token_ttl=ttl, call_state_cache_entries=cap)
            self.workers.append({"app": app, "impl": impl, "handler": handler, "cap": cap})
        self.ref = self.workers.pop()

    def send(self, w: dict[str, Any], method: str, idx: int, body: bytes) -> dict[str, Any]:
        tl = self.tl
        inv0 = len(w["impl"].inv)
        r = tl.exchange(w["app"], method, idx, body)
        o = tl.outcome(r)
        o["new_inv"] = [_inv_entry(e) for e in w["impl"].inv[inv0:]]
        o["cursor_tok"], _ = tl.tokens_of(r)
        return o

    def open_cursor(self, tok: bytes | None, idx: int) -> tuple[bytes, bytes] | None:
        from vgi_rpc.http.server import _state_token as st
        from vgi_rpc.rpc import AuthContext

        if tok is None:
            return None
        _l, a, d, p = self.tl.IDENTITIES[idx]
        auth = AuthContext(domain=d, authenticated=True, principal=p) if a else AuthContext.anonymous()
        try:
            sb, cid = st._open_cursor_token(tok, KEY, st._compute_aad(auth), 0)
        except Exception:  # noqa: BLE001
            return None
        return bytes(sb), bytes(cid)

    def cache_situation(self, w: dict[str, Any], call_id: bytes | None, idx: int, init_time: float) -> str:
        """What W's cache holds for this (call id, stream owner) right now (read, not inferred)."""
        from vgi_rpc.rpc import AuthContext

        cache = w["handler"]._call_state_cache
        if w["cap"] == 0:
            return "cache_disabled"
        if call_id is None:
            return "cursor_unreadable"
        _l, a, d, p = self.tl.IDENTITIES[idx]
        ident = cache._identity(AuthContext(domain=d, authenticated=True, principal=p) if a else None)
        entries = dict(cache._entries)
        entry = entries.get((call_id, ident))
        if entry is None:  # tolerate another key layout: any key that names this call id
            entry = next((v for k, v in entries.items() if (k[0] if isinstance(k, tuple) else k) == call_id), None)
        if entry is None:
            return "absent"
        exp = entry[0]
        live = exp > self.clock.now
        origin = "warmed_by_init" if abs(exp - (init_time + self.ttl)) < 1e-6 else "refilled_on_miss"
        return f"{'live' if live else 'stale'}_entry_{origin}"


def run_history(hseed: str, chk: Check, *, collide: bool = False) -> None:
    from lib.models import tokenlab as tl
    from vgi_rpc.http.server import _state_token as st

    rng = random.Random(hseed)
    ttl = rng.choice([5, 20])
    clock = tl.Clock(1_700_000_000.0 + rng.choice([0.0, 0.0, 0.1, 0.5, 0.9]))
    tl.install_clock(clock)
    nworkers = rng.choice([2, 3])
    caps = [rng.choice([0, 1, 2, 3, 3, 64]) for _ in range(nworkers)]
    if all(c == 0 for c in caps):
        caps[0] = rng.choice([1, 2, 3])
    world = World(caps, ttl, clock)
    streams: list[dict[str, Any]] = []
    ids = [tl.ID_INDEX[x] for x in IDS]
    forced: list[bytes] = []
    real_os = st.os

    class _OsShim:
        def urandom(self, n: int) -> bytes:
            if n == 16 and forced:
                chk.hit("forced_call_id_used")
                return forced.pop(0)
            return real_os.urandom(n)

        def __getattr__(self, name: str) -> Any:
            return getattr(real_os, name)

    st.os = _OsShim()  # type: ignore[assignment]
    try:
        nops = rng.choice([20, 40, 60])
        for _op in range(nops):
            r = rng.random()
            if not streams or (r < 0.16 and len(streams) < 5):
                method = rng.choice(["pc", "pc", "pc", "pa", "xa"])
                idx = rng.choice(ids)
                wi = rng.randrange(nworkers)
                if collide and streams and rng.random() < 0.7:
                    # force the new stream's call id to equal that of a stream of a DIFFERENT identity
                    def clash(i: int, j: int) -> bool:
                        return tl.same_identity(i, j) is not False or {tl.IDENTITIES[i][0], tl.IDENTITIES[j][0]} == {"anon", "empty_dom_anonymous"}

                    cands = [s for s in streams if s["call_id"] is not None and not any(clash(t["idx"], idx) for t in streams if t["call_id"] == s["call_id"])]
                    if cands:
                        victim = rng.choice(cands)
                        forced.append(victim["call_id"])
                        wi = victim["home"] if rng.random() < 0.7 else wi
                resp = tl.init_stream(world.workers[wi]["app"], method, idx)
                forced.clear()
                cur, call = tl.tokens_of(resp)
                if resp.status != 200 or cur is None or call is None:
                    chk.violation("init_failed", "stream init did not return tokens", {"history": hseed, "outcome": tl.outcome(resp)})
                    continue
                opened = world.open_cursor(cur, idx)
                streams.append({"method": method, "idx": idx, "home": wi, "t0": clock.now, "cur": cur, "prev": None, "call": call, "call_id": opened[1] if opened else None, "done": False})
                chk.hit("inits")
                continue
            if r < 0.34:
                clock.now += rng.choice([0, 0.25, 0.5, 1, 1, ttl // 2, ttl - 1, ttl, ttl + 1, 2 * ttl + 1])
                chk.hit("clock_steps")
                continue
            s = rng.choice(streams)
            if s["done"]:
                continue
            wi = rng.choice([s["home"], rng.randrange(nworkers), rng.randrange(nworkers)])
            w = world.workers[wi]
            variant = rng.choice(["honest"] * 8 + ["no_call_token", "tampered_call_token", "other_stream_call_token", "wrong_identity", "stale_cursor", "cancel"])
            cur, call, idx, cancel = s["cur"], s["call"], s["idx"], False
            if variant == "no_call_token":
                call = None
            elif variant == "tampered_call_token":
                import base64

                raw = bytearray(base64.b64decode(call))
                raw[rng.randrange(len(raw))] ^= 1 << rng.randrange(8)
                call = base64.b64encode(bytes(raw))
            elif variant == "other_stream_call_token":
                others = [o for o in streams if o is not s and o["idx"] == s["idx"]]
                if not others:
                    variant = "honest"
                else:
                    call = rng.choice(others)["call"]
            elif variant == "wrong_identity":
                idx = rng.choice([i for i in ids if tl.same_identity(i, s["idx"]) is False])
            elif variant == "stale_cursor":
                if s["prev"] is None:
                    variant = "honest"
                else:
                    cur = s["prev"]
            elif variant == "cancel":
                cancel = True
            body = tl.cont_body(IN_COLS[s["method"]], cur, call, cancel=cancel)
            opened = world.open_cursor(cur, s["idx"])
            situation = world.cache_situation(w, opened[1] if opened else None, s["idx"], s["t0"])
            ow = world.send(w, s["method"], idx, body)
            orf = world.send(world.ref, s["method"], idx, body)
            cw, cr = _cause(ow), _cause(orf)
            kind = {"pc": "producer_callstate", "pa": "producer", "xa": "exchange"}[s["method"]]
            chk.case(f"{variant}|{situation}|ref:{cr}|{kind}")
            chk.hit("continuations_compared")
            if "entry" in situation and situation.startswith("live"):
                chk.hit("cache_hit_situations")
            if situation in ("absent",) or situation.startswith("stale"):
                chk.hit("cache_miss_situations")
            wit = {
                "history": hseed,
                "ttl": ttl,
                "caps": caps,
                "worker": wi,
                "variant": variant,
                "method": s["method"],
                "stream_age": clock.now - s["t0"],
                "cache_before": situation,
                "worker_outcome": {k: ow[k] for k in ("status", "error", "batches", "cursor", "new_inv")},
                "reference_outcome": {k: orf[k] for k in ("status", "error", "batches", "cursor", "new_inv")},
            }
            same = all(ow[k] == orf[k] for k in ("status", "error", "batches", "cursor", "new_inv", "rpc_error_header"))
            if not same:
                origin = situation.split("_entry_")[1] if "_entry_" in situation else situation
                valid_tokens = variant in ("honest", "stale_cursor", "cancel")
                if valid_tokens and cw == "served" and cr.endswith("call_token_expired"):
                    key = f"cache_entry_outlives_call_token:{origin}"
                elif not valid_tokens and variant != "wrong_identity" and cw == "served" and situation.startswith("live"):
                    key = f"cache_hit_ignores_presented_call_token:{variant}"
                else:
                    key = f"cache_changes_outcome:{variant}:{cw}_vs_{cr}:{origin}"
                chk.violation(key, f"worker with cache ({situation}) answered {cw}; the cache-0 reference answered {cr}", wit)
            else:
                chk.hit("outcomes_equal")
                tw, tr = world.open_cursor(ow["cursor_tok"], idx), world.open_cursor(orf["cursor_tok"], idx)
                if ow["cursor_tok"] is not None:
                    chk.hit("returned_cursors_compared")
                    if tw is None or tr is None or tw != tr:
                        chk.violation(f"returned_cursor_differs:{variant}", "the cursor returned by the cached worker differs from the reference's in (state bytes, call id)", dict(wit, worker_cursor=tw, reference_cursor=tr))
            # call state seen by process()/on_cancel on W must belong to the requester
            for e in ow["new_inv"]:
                if e[0] == "step" and s["method"] == "pc":
                    chk.hit("call_state_owner_checked")
                    if e[5] != tl.auth_label(idx):
                        chk.violation(
                            f"call_state_of_other_identity:{situation.split('_entry_')[0] if '_entry_' in situation else situation}",
                            "process() on the cached worker saw call state minted for a different caller identity",
                            dict(wit, owner_seen=e[5], requester=tl.auth_label(idx)),
                        )
            if variant == "honest" and cw == "served":
                if ow["cursor_tok"] is not None:
                    s["prev"], s["cur"] = s["cur"], ow["cursor_tok"]
                elif s["method"] != "xa":
                    s["done"] = True
            if variant == "cancel" and cw == "served":
                chk.hit("cancels")
        chk.hit("histories")
        if len(chk.samples) < 3:
            chk.sample({"history": hseed, "ttl": ttl, "caps": caps, "streams": [(s["method"], tl.IDENTITIES[s["idx"]][0], s["home"]) for s in streams], "clock_reads": clock.reads})
        if clock.reads:
            chk.hit("clock_shim_read")
    finally:
        st.os = real_os  # type: ignore[assignment]


# ---------------------------------------------------------------------------
# concurrent leg: requests of several streams overlap on one worker thread pool
# ---------------------------------------------------------------------------


def run_concurrent(cseed: str, chk: Check, *, bound: int, max_dfs: int, pct: int) -> None:
    """Overlapping requests on ONE worker with a small call-state cache, under the deterministic scheduler.

    The worker's cache lock is a scheduler-aware lock and every statement of ``_CallStateCache.get`` / ``put`` is
    a yield point, so a request of one stream can be suspended anywhere inside the cache while requests of other
    streams insert, evict and expire entries.  Each continuation's outcome is compared with the replay of the same
    bytes on a cache-0 worker.
    """
    from lib import sched as S
    from lib.models import tokenlab as tl
    from vgi_rpc.http.server import _state_token as st

    rng = random.Random(cseed)
    cap = rng.choice([1, 1, 2])
    nstreams = rng.choice([2, 3])
    ttl = 20
    kinds = [rng.choice(["cont_warm", "cont_warm", "cont_cold", "init"]) for _ in range(rng.choice([2, 2, 3]))]
    if not any(k.startswith("cont") for k in kinds):
        kinds[0] = "cont_warm"
    if cseed.startswith("conc:fixed:"):
        # seed-independent shapes: a live entry read while another request inserts / evicts / replaces
        cap, nstreams, kinds = [
            (1, 2, ["cont_warm", "cont_cold"]),
            (1, 2, ["cont_warm", "init"]),
            (2, 3, ["cont_warm", "cont_warm"]),
            (2, 3, ["cont_warm", "cont_cold"]),
            (2, 2, ["cont_warm", "cont_warm", "init"]),
            (1, 3, ["cont_cold", "cont_cold"]),
        ][int(cseed.rsplit(":", 1)[1]) % 6]
    script = {"cap": cap, "streams": nstreams, "actors": kinds, "seed": cseed}
    ref: list[Any] = [None]
    real_threading = st.threading
    st.threading = S.shim_threading(ref)  # type: ignore[assignment]
    ids = [tl.ID_INDEX[x] for x in IDS]
    outcomes: list[Any] = []

    import logging

    access: list[tuple[str, str]] = []  # (request id, stream id) of every access-log record

    class _Tap(logging.Handler):
        def emit(self, record: logging.LogRecord) -> None:
            access.append((str(getattr(record, "request_id", "")), str(getattr(record, "stream_id", ""))))

    tap = _Tap()
    alog = logging.getLogger("vgi_rpc.access")
    old_level, old_prop = alog.level, alog.propagate
    alog.addHandler(tap)
    alog.setLevel(logging.INFO)
    alog.propagate = False

    def make_run_for(mode: str) -> Any:
        def make_run(strategy: Any) -> Any:
            ref[0] = None
            access.clear()
            clock = tl.Clock(1_700_000_000.0)
            tl.install_clock(clock)
            world = World([cap], ttl, clock)
            w = world.workers[0]
            srng = random.Random(cseed + ":streams")
            streams = []
            twins = cseed.startswith("conc:fixed:") and int(cseed.rsplit(":", 1)[1]) >= 6  # same method and identity
            for _ in range(nstreams):
                method, idx = ("pc", ids[1]) if twins else (srng.choice(["pc", "pc", "pa", "xa"]), srng.choice(ids))
                rid = f"init-{len(streams)}"
                from lib import httpdrv as _hd
                import pyarrow as _pa

                resp = _hd.call(w["app"], "POST", f"/{method}/init", tl.hdrs(idx, {"X-Request-ID": rid}), _hd.request_body(method, _pa.schema([]), None))
                cur, call = tl.tokens_of(resp)
                sid = next((s_ for r_, s_ in access if r_ == rid), "")
                streams.append({"method": method, "idx": idx, "cur": cur, "call": call, "sid": sid})
            # with cap < nstreams the oldest streams are already evicted ("cold"), the newest are live ("warm")
            warm, cold = streams[-cap:], streams[:-cap] or streams[:1]
            if twins or srng.random() < 0.5:
                # streams that are already a few turns old: each live stream has been continued once before the
                # overlapping requests start (a cache that remembers what it served last has something to remember)
                for stx in warm:
                    r0 = tl.exchange(w["app"], stx["method"], stx["idx"], tl.cont_body(IN_COLS[stx["method"]], stx["cur"], stx["call"]))
                    ncur, _ = tl.tokens_of(r0)
                    if ncur is not None:
                        stx["cur"] = ncur
            s = S.Scheduler(strategy, max_steps=6000, watchdog_s=30.0)
            ref[0] = s
            results: list[dict[str, Any]] = []

            def actor_fn(kind: str, k: int) -> Any:
                def run() -> None:
                    if kind == "init":
                        method, idx = srng2[k]
                        resp = tl.init_stream(w["app"], method, idx)
                        o = tl.outcome(resp)
                        results.append({"kind": kind, "method": method, "idx": idx, "body": None, "outcome": o})
                        return
                    stx = (warm if kind == "cont_warm" else cold)[k % len(warm if kind == "cont_warm" else cold)]
                    body = tl.cont_body(IN_COLS[stx["method"]], stx["cur"], stx["call"])
                    rid = f"cont-{k}"
                    inv0 = len(w["impl"].inv)
                    resp = tl.exchange(w["app"], stx["method"], stx["idx"], body, {"X-Request-ID": rid})
                    o = tl.outcome(resp)
                    o["new_inv"] = [_inv_entry(e) for e in w["impl"].inv[inv0:]]
                    o["cursor_tok"], _ = tl.tokens_of(resp)
                    results.append({"kind": kind, "method": stx["method"], "idx": stx["idx"], "body": body, "outcome": o, "rid": rid, "sid": stx["sid"]})

                return run

            r2 = random.Random(cseed + ":inits")
            srng2 = {k: (r2.choice(["pc", "pa", "xa"]), r2.choice(ids)) for k in range(len(kinds))}
            for k, kind in enumerate(kinds):
                s.actor(f"{kind}{k}", actor_fn(kind, k))
            s.monitor_files(("vgi_rpc/http/server/_state_token.py",), line=(mode == "line"), funcs={"get", "put"})
            try:
                s.run()
            finally:
                S.Scheduler.unmonitor()
                ref[0] = None
            outcomes.append((s, results, world))
            return s

        return make_run

    def judge(s: Any) -> None:
        _s, results, world = outcomes[-1]
        outcomes.clear()
        access_snapshot = list(access)
        chk.case(f"concurrent:cap{cap}:{'+'.join(sorted(kinds))}|{len(s.decisions)}:{hash(tuple(s.decisions)) & 0xFFFFFF:x}")
        chk.hit("concurrent_schedules")
        if s.deadlock:
            chk.violation("concurrent_deadlock", "no runnable request thread although requests are unfinished", {"script": script, "decisions": s.decisions})
            return
        if s.step_limit_hit or getattr(s, "watchdog_fired", False) or getattr(s, "diverged", None):
            chk.skip("concurrent_schedule_unfinished")
            return
        if s.preemptions > 0:
            chk.hit("concurrent_preempted_schedules")
        for a in s.actors:
            if a.exc is not None:
                chk.violation(f"concurrent_request_raised:{type(a.exc).__name__}", f"a request thread raised {a.exc!r}", {"script": script, "decisions": s.decisions})
        for r in results:
            ow = r["outcome"]
            if r["kind"] == "init":
                chk.hit("concurrent_inits_judged")
                if ow["status"] != 200 or ow["error"] is not None:
                    chk.violation(f"concurrent_init_failed:status{ow['status']}", "a stream init overlapping other requests failed", {"script": script, "decisions": s.decisions, "outcome": {k: ow[k] for k in ("status", "error")}})
                continue
            # the access record of this turn names the stream the tokens belong to (recorded at its /init)
            seen_sids = [s_ for r_, s_ in access_snapshot if r_ == r["rid"]]
            if r["sid"] and seen_sids and ow["status"] == 200:
                chk.hit("concurrent_stream_id_checked")
                if any(s_ != r["sid"] for s_ in seen_sids):
                    chk.violation(
                        "concurrent_turn_attributed_to_other_stream",
                        "a continuation overlapping other requests was resolved to another stream's call: its access record carries a stream_id that is not the one recorded at this stream's /init",
                        {"script": script, "decisions": s.decisions, "expected_stream_id": r["sid"], "record_stream_ids": seen_sids},
                    )
            orf = world.send(world.ref, r["method"], r["idx"], r["body"])
            chk.hit("concurrent_continuations_compared")
            # the implementation's invocation log is shared by the overlapping requests: the reference's entries
            # must all be among those logged while this request ran (other requests' entries are interleaved)
            same = all(ow[k] == orf[k] for k in ("status", "error", "batches", "cursor", "rpc_error_header")) and all(e in ow["new_inv"] for e in orf["new_inv"])
            if not same:
                chk.violation(
                    f"concurrent_cache_changes_outcome:{r['kind']}:{_cause(ow)}_vs_{_cause(orf)}",
                    f"a continuation overlapping other requests on a cap-{cap} worker was answered {_cause(ow)}; the cache-0 reference answered {_cause(orf)}",
                    {
                        "script": script,
                        "decisions": s.decisions,
                        "trace_tail": [lbl for _i, lbl in s.trace[-40:]],
                        "worker_outcome": {k: ow[k] for k in ("status", "error", "batches", "cursor", "new_inv")},
                        "reference_outcome": {k: orf[k] for k in ("status", "error", "batches", "cursor", "new_inv")},
                    },
                )
            else:
                chk.hit("concurrent_outcomes_equal")

    try:
        st1 = S.explore_dfs(make_run_for("coarse"), bound=bound, max_schedules=max_dfs, on_done=judge)
        chk.extra["concurrent_dfs_schedules"] = chk.extra.get("concurrent_dfs_schedules", 0) + st1["distinct"]
        # statement-granular DFS with one preemption: every single switch point inside get()/put() of every request
        st3 = S.explore_dfs(make_run_for("line"), bound=1, max_schedules=max_dfs * 3, on_done=judge)
        chk.extra["concurrent_line_dfs_schedules"] = chk.extra.get("concurrent_line_dfs_schedules", 0) + st3["distinct"]
        if st3["truncated"]:
            chk.extra["concurrent_line_dfs_truncated"] = chk.extra.get("concurrent_line_dfs_truncated", 0) + 1
        strategies = [S.PCTStrategy(random.Random(rng.random()), len(kinds), depth=3, horizon=150) for _ in range(pct)]
        st2 = S.explore_sampled(make_run_for("line"), strategies, on_done=judge)
        chk.extra["concurrent_pct_schedules"] = chk.extra.get("concurrent_pct_schedules", 0) + st2["schedules"]
    finally:
        st.threading = real_threading  # type: ignore[assignment]
        alog.removeHandler(tap)
        alog.setLevel(old_level)
        alog.propagate = old_prop


def run_shard(job: dict[str, Any]) -> dict[str, Any]:
    chk = Check(PID, job["tier"], job["seed"], level=CATEGORY, rule=RULE)
    try:
        for h in job["histories"]:
            if h.startswith("conc"):
                run_concurrent(h, chk, bound=job.get("bound", 2), max_dfs=job.get("max_dfs", 60), pct=job.get("pct", 20))
                continue
            run_history(h, chk, collide=h.startswith("collide"))
    except Exception as exc:  # noqa: BLE001
        import traceback

        chk.inconclusive_because(f"shard crashed: {exc!r} {traceback.format_exc()[-800:]}")
    return chk.to_result()


def main(tier: str, seed: int) -> int:
    chk = Check(PID, tier, seed, level=CATEGORY, rule=RULE)
    chk.require(
        "histories",
        "inits",
        "continuations_compared",
        "outcomes_equal",
        "returned_cursors_compared",
        "call_state_owner_checked",
        "cache_hit_situations",
        "cache_miss_situations",
        "clock_steps",
        "clock_shim_read",
        "forced_call_id_used",
        "cancels",
        "concurrent_schedules",
        "concurrent_preempted_schedules",
        "concurrent_continuations_compared",
        "concurrent_outcomes_equal",
        "concurrent_stream_id_checked",
    )
    chk.assumptions += [
        "logical clock rebound over `time` in _state_token and _app_stream; `os.urandom(16)` of _state_token rebound in the collision leg only",
        "forced call-id collisions are generated only between streams of different identities; the anon vs ('', 'anonymous') pair is excluded (cache identity strings coincide; reachable only with a 2^-128 collision)",
        "the repo's _open_cursor_token/_compute_aad are used as a tool to read returned cursors",
    ]
    n, nc, nconc = (600, 160, 24) if tier == "quick" else (10000, 2500, 400)
    hs = [f"h:{seed}:{i}" for i in range(n)] + [f"collide:{seed}:{i}" for i in range(nc)] + [f"conc:{seed}:{i}" for i in range(nconc)] + [f"conc:fixed:{i}" for i in range(12)]
    random.Random(f"C14:{seed}").shuffle(hs)
    jobs = [{"histories": part, "tier": tier, "seed": seed, "bound": 2, "max_dfs": 60 if tier == "quick" else 250, "pct": 20 if tier == "quick" else 60} for part in shard.split(hs, 12 if tier == "quick" else 64)]
    for res in shard.pmap("checks.c14", "run_shard", jobs, timeout=1500.0):
        chk.merge(res)
    chk.extra["histories_planned"] = len(hs)
    chk.exhaustive["histories"] = False
    return chk.finish()

"""C04 - a socket connection stays usable after any call outcome.

Bounded call histories over one connection (pipe, unix, tcp, shm-pipe in-process;
subprocess for a sample).  Each history is a sequence of *steps*; a step is one
call with a chosen outcome: success, method error, init error with / without a
header, non-stream return, header declared but missing, unknown method, version
or parameter rejection, mid-stream error at the first / middle / last batch,
client close / cancel after k batches, an exception raised by the client's log
callback at delivery index k.  After every step a probe ``echo(nonce)`` is made on
the same connection.

Oracle: the probe returns exactly its nonce, with exactly its own log and no stale
error; and every step's client-visible trace equals the trace of the same step
run alone on a fresh connection ("its own correct response").  Blocking is judged
logically: when a call does not return within the watchdog, the harness checks
that the client is waiting while no client bytes are pending on the server side
(= waiting for a response that will never be written) before calling it a
violation; otherwise the case is inconclusive.
"""

from __future__ import annotations

import itertools
import random
from typing import Any

from lib import shard
from lib.evidence import Check

PID = "C04"
CATEGORY = "fault_enumeration"
ENGINE = "E1-svcgen-rig"
TECHNIQUE = "fault-site enumeration over bounded call histories on real connections; nonce-echo probe + solo-trace differential oracle"
LEVEL_TEXT = (
    "Fault enumeration: every listed failure kind / early-exit point / log-callback fault, alone and in ordered pairs "
    "(thorough: plus triples sampled), on pipe, unix, tcp and shm-pipe connections (subprocess for a sample), each "
    "followed by a nonce-echo probe.; failure kinds include chained terminal operations on one session (cancel+close, close+cancel, ...) and exchange inputs with another field set on the first or a later turn. Held = in every enumerated history every call got its own solo-run response and no call blocked."
)
LEVEL_NOTE = "in-process server threads for pipe/unix/tcp/shm; 'abandon without close' is recorded, not judged (statement names close and cancel only)"
RULE = "case = (transport, ordered list of step kinds); class = same; non-trivial = history containing at least one non-success step"

WATCHDOG_S = 8.0

# --- service -----------------------------------------------------------------
_L = [("INFO", "l0", {}), ("WARN", "l1", {"k": "v"})]


def _steps(n: int, raise_at: int | None = None, logs: bool = True) -> list[dict[str, Any]]:
    out = []
    for k in range(n):
        st: dict[str, Any] = {"logs": [("INFO", f"s{k}", {})] if logs else [], "act": "emit", "rows": 2}
        if raise_at is not None and k == raise_at:
            st = {"logs": [("INFO", f"pre-raise{k}", {})], "act": "raise", "exc": ("RuntimeError", f"boom at {k}")}
        out.append(st)
    return out


def server_program() -> dict[str, Any]:
    m: list[dict[str, Any]] = [
        {"name": "echo", "kind": "unary", "params": [("nonce", ("str",))], "ret": ("str",), "u": {"logs": [("INFO", "echo-log", {})], "act": ("echo", "nonce")}},
        {"name": "uerr", "kind": "unary", "params": [], "ret": ("str",), "u": {"logs": _L, "act": ("raise", "ValueError", "unary boom")}},
        {"name": "uvoid", "kind": "unary", "params": [("a", ("int",))], "ret": None, "u": {"logs": _L, "act": ("return", None)}},
        {"name": "typed", "kind": "unary", "params": [("a", ("int",))], "ret": ("int",), "u": {"logs": [], "act": ("echo", "a")}},
    ]
    for hdr in (False, True):
        h = "h" if hdr else "n"
        m.append({"name": f"p{h}_ok", "kind": "producer", "params": [], "header": hdr, "out_cols": ["i", "s"], "init": {"logs": _L, "act": ("ok",)}, "steps": _steps(3)})
        m.append({"name": f"p{h}_initerr", "kind": "producer", "params": [], "header": hdr, "out_cols": ["i"], "init": {"logs": _L, "act": ("raise", "ValueError", "init boom")}, "steps": _steps(2)})
        m.append({"name": f"p{h}_nonstream", "kind": "producer", "params": [], "header": hdr, "out_cols": ["i"], "init": {"logs": [], "act": ("nonstream",)}, "steps": _steps(1)})
        for k in (0, 1, 2):
            m.append({"name": f"p{h}_err{k}", "kind": "producer", "params": [], "header": hdr, "out_cols": ["i"], "init": {"logs": [], "act": ("ok",)}, "steps": _steps(3, raise_at=k)})
        m.append({"name": f"x{h}_ok", "kind": "exchange", "params": [], "header": hdr, "in_cols": ["i"], "out_cols": ["i"], "init": {"logs": _L, "act": ("ok",)}, "steps": [{"logs": [("INFO", "x", {})], "act": "emit"}]})
        m.append({"name": f"x{h}_initerr", "kind": "exchange", "params": [], "header": hdr, "in_cols": ["i"], "out_cols": ["i"], "init": {"logs": [], "act": ("raise", "KeyError", "x init")}, "steps": [{"logs": [], "act": "emit"}]})
        m.append(
            {"name": f"x{h}_err1", "kind": "exchange", "params": [], "header": hdr, "in_cols": ["i"], "out_cols": ["i"], "init": {"logs": [], "act": ("ok",)},
             "steps": [{"logs": [], "act": "emit"}, {"logs": [("INFO", "pre", {})], "act": "raise", "exc": ("RuntimeError", "turn boom")}]}
        )
    m.append({"name": "ph_noheader", "kind": "producer", "params": [], "header": True, "out_cols": ["i"], "init": {"logs": [], "act": ("noheader",)}, "steps": _steps(1)})
    m.append({"name": "xh_noheader", "kind": "exchange", "params": [], "header": True, "in_cols": ["i"], "out_cols": ["i"], "init": {"logs": [], "act": ("noheader",)}, "steps": [{"logs": [], "act": "emit"}]})
    return {"name": "C04Svc", "version": "1.2.0", "methods": m, "calls": []}


def client_variant_program() -> dict[str, Any]:
    """What a *mismatched* client believes the service looks like (used for the client proxy only)."""
    m: list[dict[str, Any]] = [
        {"name": "ghost_u", "kind": "unary", "params": [], "ret": ("str",), "u": {"logs": [], "act": ("return", "x")}},
        {"name": "ghost_p", "kind": "producer", "params": [], "header": False, "out_cols": ["i"], "init": {"logs": [], "act": ("ok",)}, "steps": []},
        {"name": "ghost_ph", "kind": "producer", "params": [], "header": True, "out_cols": ["i"], "init": {"logs": [], "act": ("ok",)}, "steps": []},
        # parameter rejections: same method names as the server, different declared types
        {"name": "typed", "kind": "unary", "params": [("a", ("str",))], "ret": ("int",), "u": {"logs": [], "act": ("return", 0)}},
        {"name": "uvoid", "kind": "unary", "params": [("b", ("int",))], "ret": None, "u": {"logs": [], "act": ("return", None)}},
        {"name": "pn_ok", "kind": "producer", "params": [("extra", ("int",))], "header": False, "out_cols": ["i", "s"], "init": {"logs": [], "act": ("ok",)}, "steps": []},
        {"name": "ph_ok", "kind": "producer", "params": [("extra", ("int",))], "header": True, "out_cols": ["i", "s"], "init": {"logs": [], "act": ("ok",)}, "steps": []},
    ]
    return {"name": "C04Svc", "version": "1.2.0", "methods": m, "calls": []}


def client_badversion_program() -> dict[str, Any]:
    p = server_program()
    p["version"] = "2.0.0"
    return p


# --- steps ---------------------------------------------------------------------
# (key, proxy, call dict, judged)
def step_catalog() -> dict[str, dict[str, Any]]:
    c: dict[str, dict[str, Any]] = {}

    def add(key: str, proxy: str, call: dict[str, Any], judged: bool = True, onlog_raise: int | None = None) -> None:
        c[key] = {"key": key, "proxy": proxy, "call": call, "judged": judged, "onlog_raise": onlog_raise}

    add("ok_unary", "main", {"m": "uvoid", "args": {"a": 1}})
    add("unary_error", "main", {"m": "uerr", "args": {}})
    for h in ("n", "h"):
        add(f"stream_ok_{h}", "main", {"m": f"p{h}_ok", "args": {}, "take": None})
        add(f"init_error_{h}", "main", {"m": f"p{h}_initerr", "args": {}, "take": None})
        add(f"init_error_then_close_{h}", "main", {"m": f"p{h}_initerr", "args": {}, "take": 0, "end": "close"})
        add(f"init_error_then_cancel_{h}", "main", {"m": f"p{h}_initerr", "args": {}, "take": 0, "end": "cancel"})
        add(f"xinit_error_{h}", "main", {"m": f"x{h}_initerr", "args": {}, "inputs": [{"i": [1]}]})
        add(f"xinit_error_noinput_{h}", "main", {"m": f"x{h}_initerr", "args": {}, "inputs": []})
        add(f"nonstream_return_{h}", "main", {"m": f"p{h}_nonstream", "args": {}, "take": None})
        for k in (0, 1, 2):
            add(f"midstream_error{k}_{h}", "main", {"m": f"p{h}_err{k}", "args": {}, "take": None})
        add(f"exchange_ok_{h}", "main", {"m": f"x{h}_ok", "args": {}, "inputs": [{"i": [1]}, {"i": [2, 3]}]})
        add(f"exchange_error_{h}", "main", {"m": f"x{h}_err1", "args": {}, "inputs": [{"i": [1]}, {"i": [2]}, {"i": [3]}]})
        for k in (0, 1, 3):
            add(f"close_after{k}_{h}", "main", {"m": f"p{h}_ok", "args": {}, "take": k, "end": "close"})
            add(f"cancel_after{k}_{h}", "main", {"m": f"p{h}_ok", "args": {}, "take": k, "end": "cancel"})
        # both terminal operations on one session, in either order (a `with` block exit after an explicit cancel())
        for k in (0, 1, 2):
            for seq in ("cancel+close", "close+cancel", "close+close", "cancel+cancel"):
                add(f"{seq.replace('+', '_')}_after{k}_{h}", "main", {"m": f"p{h}_ok", "args": {}, "take": k, "end": seq})
        for seq in ("cancel+close", "close+cancel", "close+close"):
            add(f"exchange_{seq.replace('+', '_')}_{h}", "main", {"m": f"x{h}_ok", "args": {}, "inputs": [{"i": [1]}], "end": seq})
            add(f"exchange_{seq.replace('+', '_')}_noinput_{h}", "main", {"m": f"x{h}_ok", "args": {}, "inputs": [], "end": seq})
        # an exchange input whose field set differs from the stream's (first turn: refused by the server; later turn:
        # the client's own input stream cannot carry it): a mid-stream error either way
        bad = {"__cols__": {"i": "int64", "zz": "float64"}, "i": [9], "zz": [1.5]}
        add(f"exchange_bad_input_first_{h}", "main", {"m": f"x{h}_ok", "args": {}, "inputs": [bad, {"i": [2]}]})
        add(f"exchange_bad_input_later_{h}", "main", {"m": f"x{h}_ok", "args": {}, "inputs": [{"i": [1]}, bad, {"i": [3]}]})
        add(f"abandon_after1_{h}", "main", {"m": f"p{h}_ok", "args": {}, "take": 1, "end": "abandon"}, judged=False)
        add(f"exchange_cancel_{h}", "main", {"m": f"x{h}_ok", "args": {}, "inputs": [{"i": [1]}], "end": "cancel"})
        for k in (0, 1, 2, 3):
            add(f"onlog_raise_stream{k}_{h}", "main", {"m": f"p{h}_ok", "args": {}, "take": None}, onlog_raise=k)
        add(f"onlog_raise_exchange_{h}", "main", {"m": f"x{h}_ok", "args": {}, "inputs": [{"i": [1]}]}, onlog_raise=2)
    add("missing_header_p", "main", {"m": "ph_noheader", "args": {}, "take": None})
    add("missing_header_x", "main", {"m": "xh_noheader", "args": {}, "inputs": [{"i": [1]}]})
    for k in (0, 1):
        add(f"onlog_raise_unary{k}", "main", {"m": "uerr" if k else "uvoid", "args": {} if k else {"a": 1}}, onlog_raise=k)
    add("unknown_unary", "variant", {"m": "ghost_u", "args": {}})
    add("unknown_stream_n", "variant", {"m": "ghost_p", "args": {}, "take": None})
    add("unknown_stream_h", "variant", {"m": "ghost_ph", "args": {}, "take": None})
    add("param_reject_type", "variant", {"m": "typed", "args": {"a": "str"}})
    add("param_reject_name", "variant", {"m": "uvoid", "args": {"b": 1}})
    add("param_reject_stream_n", "variant", {"m": "pn_ok", "args": {"extra": 1}, "take": None})
    add("param_reject_stream_h", "variant", {"m": "ph_ok", "args": {"extra": 1}, "take": None})
    add("version_reject_unary", "badver", {"m": "uvoid", "args": {"a": 1}})
    add("version_reject_stream_n", "badver", {"m": "pn_ok", "args": {}, "take": None})
    add("version_reject_stream_h", "badver", {"m": "ph_ok", "args": {}, "take": None})
    return c


class _Conn:
    """One connection with three client proxies (main / variant / badver) over the same transport."""

    def __init__(self, kind: str) -> None:
        import contextlib
        import threading

        from lib import rig, svcgen
        from vgi_rpc.rpc import RpcServer, ShmPipeTransport, make_pipe_pair, make_tcp_pair, make_unix_pair
        from vgi_rpc.rpc._client import _RpcProxy

        self.kind = kind
        self._cl = contextlib
        self.rig = rig
        self.logs: list[Any] = []
        self.raise_at: int | None = None
        self.delivered = 0
        self.proc = None
        self.seg = None
        sp = server_program()
        proto, impl = svcgen.build(sp)
        vproto, _ = svcgen.build(client_variant_program())
        bproto, _ = svcgen.build(client_badversion_program())
        self.impl = impl
        self.programs = {"main": sp, "variant": client_variant_program(), "badver": client_badversion_program()}
        self.server_thread = None
        if kind == "subprocess":
            import os
            import pickle
            import sys
            import tempfile

            from vgi_rpc.rpc import SubprocessTransport

            self.td = tempfile.TemporaryDirectory(prefix="verif-c04-")
            pf = os.path.join(self.td.name, "p.pkl")
            with open(pf, "wb") as fh:
                pickle.dump(sp, fh)
            root = os.path.dirname(os.path.dirname(os.path.abspath(__file__)))
            self.ct = SubprocessTransport([sys.executable, os.path.join(root, "lib", "svcworker.py"), pf, "-"])
            self.st = None
        else:
            if kind == "pipe":
                self.ct, self.st = make_pipe_pair()
            elif kind == "unix":
                self.ct, self.st = make_unix_pair()
            elif kind == "tcp":
                self.ct, self.st = make_tcp_pair()
            else:
                from vgi_rpc.shm import ShmSegment

                cp, spp = make_pipe_pair()
                self.seg = ShmSegment.create(1 << 20)
                self.ct, self.st = ShmPipeTransport(cp, self.seg), ShmPipeTransport(spp, self.seg)
            server = RpcServer(proto, impl, enable_describe=True)  # like lib/svcworker.py
            self.server = server
            self.server_thread = threading.Thread(target=rig._serve_quiet, args=(server, self.st), daemon=True)
            self.server_thread.start()
        self.proxies = {
            "main": _RpcProxy(proto, self.ct, self._on_log),
            "variant": _RpcProxy(vproto, self.ct, self._on_log),
            "badver": _RpcProxy(bproto, self.ct, self._on_log),
        }

    def _on_log(self, msg: Any) -> None:
        i = self.delivered
        self.delivered += 1
        if self.raise_at is not None and i == self.raise_at:
            self.raise_at = None
            raise self.rig.OnLogRaise("client log callback failed")
        self.logs.append(self.rig.norm_log(msg))

    def run_step(self, step: dict[str, Any]) -> list[Any]:
        self.delivered = 0
        self.raise_at = step.get("onlog_raise")
        self.logs.clear()
        tr = self.rig.run_calls(self.proxies[step["proxy"]], self.programs[step["proxy"]], collect_log=self.logs, calls=[step["call"]])
        reached = self.raise_at is None
        self.raise_at = None
        if step.get("onlog_raise") is not None and not reached:
            return [["injection_not_reached"], *tr[0]]
        return tr[0]

    def probe(self, nonce: str) -> list[Any]:
        self.delivered = 0
        self.raise_at = None
        self.logs.clear()
        tr = self.rig.run_calls(self.proxies["main"], self.programs["main"], collect_log=self.logs, calls=[{"m": "echo", "args": {"nonce": nonce}}])
        return tr[0]

    def server_pending_bytes(self) -> bool | None:
        """True if unread client bytes are pending at the server's reader; None if unknown."""
        import select

        if self.st is None:
            return None
        try:
            fd = self.st.reader.fileno()
            r, _, _ = select.select([fd], [], [], 0)
            return bool(r)
        except Exception:  # noqa: BLE001
            return None

    blocked = False

    def close(self) -> None:
        if self.blocked:
            # a thread is parked in a read on this connection: closing the buffered reader from
            # here would wait on its lock forever.  Abandon it (daemon threads; the shard exits).
            if self.kind == "subprocess":
                with self._cl.suppress(Exception):
                    self.ct.proc.kill()
            if self.seg is not None:
                with self._cl.suppress(Exception):
                    self.seg.unlink()
            return
        with self._cl.suppress(Exception):
            self.ct.close()
        if self.server_thread is not None:
            self.server_thread.join(timeout=2)
        if self.st is not None:
            with self._cl.suppress(Exception):
                self.st.close()
        if self.seg is not None:
            with self._cl.suppress(Exception):
                self.seg.unlink()
            with self._cl.suppress(Exception):
                self.seg.close()
        if getattr(self, "td", None) is not None:
            self.td.cleanup()


def _mech(step_key: str) -> str:
    """Mechanism name of a step: positions and early-exit flavours are folded together."""
    import re

    k = re.sub(r"_then_(close|cancel)|_noinput", "", step_key)
    k = re.sub(r"(\D)\d+", r"\1", k)
    return k


def _with_watchdog(fn: Any, watchdog: float | None = None) -> tuple[bool, Any]:
    import threading

    box: dict[str, Any] = {}

    def run() -> None:
        try:
            box["res"] = fn()
        except BaseException as exc:  # noqa: BLE001
            box["exc"] = exc

    th = threading.Thread(target=run, daemon=True)
    th.start()
    th.join(watchdog or WATCHDOG_S)
    if th.is_alive():
        return False, None
    if "exc" in box:
        return True, ["harness_exception", type(box["exc"]).__name__, str(box["exc"])[:200]]
    return True, box["res"]


def _solo(kind: str, step: dict[str, Any], cache: dict[tuple[str, str], Any]) -> Any:
    k = (kind if kind == "shm" else "any", step["key"])
    if k not in cache:
        conn = _Conn("shm" if kind == "shm" else "pipe")
        try:
            ok, tr = _with_watchdog(lambda: conn.run_step(step))
            cache[k] = tr if ok else "BLOCKED"
            conn.blocked = not ok
        finally:
            conn.close()
    return cache[k]


def run_shard(job: dict[str, Any]) -> dict[str, Any]:
    chk = Check(PID, job["tier"], job["seed"], level=CATEGORY)
    cat = step_catalog()
    solo_cache: dict[tuple[str, str], Any] = {}
    blocked_steps: set[str] = set()
    for kind, hist in job["histories"]:
        # a step already confirmed (in this shard) to block the connection forever is not
        # re-executed at the cost of another watchdog period: the history is cut before it
        cut = next((i for i, k in enumerate(hist) if k in blocked_steps), None)
        if cut is not None:
            chk.skip("history_truncated_before_known_blocking_step")
            hist = hist[:cut]
            if not hist:
                continue
        steps = [cat[k] for k in hist]
        cls = f"{kind}|{'>'.join(hist)}"
        conn = _Conn(kind)
        try:
            prev_fault = "none"
            dead = False
            for pos, st in enumerate(steps):
                expected = _solo(kind, st, solo_cache)
                # a worker subprocess has to start and import the library first: under load that alone can take long
                ok, tr = _with_watchdog(lambda st=st: conn.run_step(st), 60.0 if kind == "subprocess" else None)
                wit = {"transport": kind, "history": hist, "position": pos, "step": st["key"]}
                if not ok:
                    conn.blocked = True
                    pending = conn.server_pending_bytes()
                    alive = conn.server_thread.is_alive() if conn.server_thread is not None else None
                    if expected == "BLOCKED":
                        blocked_steps.add(st["key"])
                    if expected == "BLOCKED" or pending is False or alive is False:
                        chk.violation(
                            f"call_blocked:{_mech(st['key'])}" if prev_fault == "none" or expected == "BLOCKED" else f"call_blocked_after:{_mech(prev_fault)}",
                            "the client is blocked on a response that will never be written (server idle or dead, no client bytes pending)",
                            {**wit, "server_alive": alive, "pending_client_bytes": pending},
                        )
                    else:
                        chk.inconclusive_because(f"watchdog fired without logical confirmation ({kind} {st['key']})")
                    dead = True
                    break
                chk.hit("step_completed")
                if tr and tr[0] == ["injection_not_reached"]:
                    chk.skip("onlog_injection_point_not_reached")
                    tr = tr[1:]
                if st["judged"]:
                    if expected == "BLOCKED":
                        pass
                    elif repr(tr) != repr(expected):
                        chk.violation(
                            f"wrong_response:{_mech(st['key'])}" if prev_fault == "none" else f"next_call_corrupted:after={_mech(prev_fault)}",
                            "a call did not receive the response it receives when run alone on a fresh connection",
                            {**wit, "got": tr, "expected_solo": expected},
                        )
                        prev_fault = st["key"]
                        # the connection may be desynchronised from here on; still run the probe to observe it
                else:
                    chk.skip(f"unjudged_step:{st['key']}")
                nonce = f"n-{pos}-{st['key']}"
                ok, ptr = _with_watchdog(lambda nonce=nonce: conn.probe(nonce), 60.0 if kind == "subprocess" else None)
                if not ok:
                    conn.blocked = True
                    pending = conn.server_pending_bytes()
                    alive = conn.server_thread.is_alive() if conn.server_thread is not None else None
                    if pending is False or alive is False:
                        blocked_steps.add(st["key"])
                    if not st["judged"]:
                        chk.skip(f"probe_blocked_after_unjudged:{st['key']}")
                    elif pending is False or alive is False:
                        chk.violation(
                            f"probe_blocked_after:{_mech(st['key'])}",
                            "the next call on the connection never gets a response (server thread dead or waiting, nothing pending)",
                            {**wit, "server_alive": alive, "pending_client_bytes": pending, "serve_died": repr(getattr(conn.impl, "_serve_died", None))},
                        )
                    else:
                        chk.inconclusive_because(f"probe watchdog fired without logical confirmation ({kind} after {st['key']})")
                    dead = True
                    break
                chk.hit("probe_completed")
                want = [["log", "INFO", "echo-log", {}], ["result", nonce]]
                if ptr != want:
                    if st["judged"]:
                        chk.violation(
                            f"probe_wrong_after:{_mech(st['key'])}",
                            "the next call on the connection did not receive its own response",
                            {**wit, "probe_got": ptr, "probe_want": want, "step_trace": tr},
                        )
                    else:
                        chk.skip(f"probe_wrong_after_unjudged:{st['key']}")
                    dead = True
                    break
                if st["key"] not in ("ok_unary", "stream_ok_n", "stream_ok_h", "exchange_ok_n", "exchange_ok_h"):
                    prev_fault = prev_fault if prev_fault != "none" else "none"
            chk.case(cls)
            if not dead:
                chk.hit("history_completed")
            if len(chk.samples) < 2:
                chk.sample({"transport": kind, "history": hist})
        finally:
            conn.close()
    return chk.to_result()


def build_histories(tier: str, seed: int) -> list[tuple[str, list[str]]]:
    rng = random.Random(seed)
    cat = sorted(step_catalog())
    faults = [k for k in cat if k not in ("ok_unary",)]
    hs: list[tuple[str, list[str]]] = []
    kinds = ["pipe", "unix", "tcp", "shm"]
    for i, f in enumerate(faults):
        for kind in kinds if tier == "thorough" else [kinds[i % 4], kinds[(i + 1) % 4]]:
            hs.append((kind, [f]))
            hs.append((kind, ["ok_unary", f]))
    pairs = list(itertools.permutations(faults, 2))
    rng.shuffle(pairs)
    npairs = 150 if tier == "quick" else len(pairs)
    for j, (a, b) in enumerate(pairs[:npairs]):
        hs.append((kinds[j % 4], [a, b]))
    if tier == "thorough":
        for j in range(1500):
            hs.append((kinds[j % 4], [rng.choice(faults) for _ in range(rng.choice([3, 4]))]))
    sub = rng.sample(faults, 6 if tier == "quick" else 30)
    for f in sub:
        hs.append(("subprocess", [f, rng.choice(faults)]))
    return hs


def main(tier: str, seed: int) -> int:
    chk = Check(PID, tier, seed, level=CATEGORY, rule=RULE)
    chk.require("step_completed", "probe_completed", "history_completed")
    hs = build_histories(tier, seed)
    n = shard.ncpu()
    jobs = [{"tier": tier, "seed": seed, "histories": sh} for sh in shard.split(hs, n * 2)]
    for res in shard.pmap("checks.c04", "run_shard", jobs, timeout=600 if tier == "quick" else 3000):
        chk.merge(res)
    chk.exhaustive["single_faults_and_ok_then_fault"] = True
    chk.exhaustive["ordered_pairs"] = tier == "thorough"
    chk.extra["fault_kinds"] = len(step_catalog())
    return chk.finish()

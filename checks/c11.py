"""C11 - HTTP producer output is independent of chunking and resumption.

For generated producer scripts (<= 12 steps, batch sizes from a few bytes to several KiB)
the pipe trace of the real code is the reference.  The same script is then served by the
real WSGI app for many ``max_response_bytes`` values (1 byte, every batch boundary of the
body -1/0/+1, boundaries found in later turns, unbounded; in the thorough tier every cap
1..N for a subset) x response codings (identity / zstd / gzip) and iterated with the real
client through a recording HTTP client (raw body per turn).  Monitors:

* the iterated batch sequence and the terminal event equal the pipe trace;
* no ``process()`` is entered in a turn whose body had already reached the cap
  (``remaining_response_bytes == 0`` seen by the state on a non-first iteration of a turn),
  and, on uncompressed turn bodies, every non-first data batch of a turn starts below the cap;
* resuming from every per-batch resume token (``next_with_token`` -> ``resume_stream`` /
  ``seek_to_token`` / plain iteration) on the minting app, on an app with the call-state
  cache disabled, and on a second app B sharing the key (cold, then warm cache; several
  caps) yields exactly the remaining batches and the same terminal event.
"""

from __future__ import annotations

import random
from typing import Any

from lib import shard
from lib.evidence import Check

PID = "C11"
ENGINE = "E1-svcgen-rig+E2-raw-drivers"
TECHNIQUE = "differential executions (pipe reference vs. HTTP x cap x codec x resume point x worker/cache) with per-turn body and process() monitors"
LEVEL_TEXT = (
    "Exploration: seeded producer scripts (<=12 steps) run on the real client/server; for each script the HTTP legs cover "
    "caps 1, every batch boundary -1/0/+1 (first and later turns), unbounded (thorough: every cap 1..N for a subset), three response "
    "codings, and every per-batch resume point on worker A (warm / cache disabled) and a second app B sharing the token key "
    "(cold then warm) through next_with_token, resume_stream, seek_to_token and iteration. Held means every leg listed in the "
    "evidence produced the pipe trace and no turn entered process() after its body reached the cap."
)
LEVEL_NOTE = "pipe trace used as reference (cross-checked against the lifecycle model); HTTP driven in-process via WSGI; codec libraries trusted"
CATEGORY = "exploration"
RULE = (
    "case = (script, leg); legs: diff(cap, codec) and resume(api, worker, cache, position); distinct class = "
    "(leg kind, codec, cap relation to batch boundaries | resume api/worker/cache/position class, script terminal, state kind)"
)

COLSETS = [["i"], ["i", "s"], ["s", "f", "i"], ["b"], ["i", "n"], []]
EXC = [("ValueError", "boom"), ("RuntimeError", "bad state")]
CODECS = [None, "zstd", "gzip"]


def _gen_method(rng: random.Random, idx: int, small: bool = False) -> dict[str, Any]:
    from lib import svcgen

    n = rng.choice([2, 3, 4, 5, 6] if small else [1, 2, 3, 4, 5, 6, 8, 12])
    term = rng.choice([None, None, "finish", "emit_finish", "raise"])
    cols = rng.choice(COLSETS)
    steps: list[dict[str, Any]] = []
    nemit = n - (1 if term in ("finish", "raise") else 0)
    for j in range(max(0, nemit)):
        last = j == nemit - 1
        st: dict[str, Any] = {
            "logs": svcgen.gen_logs(rng, 2) if rng.random() < 0.3 else [],
            "act": "emit_finish" if (last and term == "emit_finish") else "emit",
            "rows": rng.choice([0, 1, 1, 2] if small else [0, 1, 1, 2, 5, 40]),
            "pad": rng.choice([0, 0, 50] if small else [0, 0, 50, 400, 3000]),
        }
        if rng.random() < 0.2:
            st["meta"] = {"k": rng.choice(["v", "x" * 30])}
        steps.append(st)
    if term == "finish":
        steps.append({"logs": svcgen.gen_logs(rng, 2) if rng.random() < 0.3 else [], "act": "finish"})
    elif term == "raise":
        steps.append({"logs": [], "act": "raise", "exc": rng.choice(EXC)})
    m: dict[str, Any] = {
        "name": "p",
        "kind": "producer",
        "params": [],
        "header": rng.random() < 0.35,
        "out_cols": cols,
        "init": {"logs": svcgen.gen_logs(rng, 2) if rng.random() < 0.3 else [], "act": ("ok",)},
        "steps": steps,
        "_term": term or "implicit",
    }
    if rng.random() < 0.35:
        m["state"] = "PStateCS"
        m["cs_payload"] = "payload-" + "z" * rng.choice([0, 10, 500])
    return m


# ---------------------------------------------------------------------------
# drivers
# ---------------------------------------------------------------------------


def _iterate(sess: Any) -> list[list[Any]]:
    from lib.models import streams
    from vgi_rpc.rpc import RpcError

    ev: list[list[Any]] = []
    try:
        for ab in sess:
            ev.append(["batch", streams.norm_rb(ab.batch, ab.custom_metadata)])
            if len(ev) > 80:  # scripts have <= 12 steps: a stream this long is not converging
                ev.append(["runaway"])
                return ev
        ev.append(["end"])
    except RpcError as e:
        ev.append(["error", e.error_type, e.error_message])
    return ev


def _open_and_iterate(proxy: Any) -> list[list[Any]]:
    from vgi_rpc.rpc import RpcError

    try:
        sess = proxy.p()
    except RpcError as e:
        return [["error", e.error_type, e.error_message]]
    return _iterate(sess)


def _walk_tokens(sess: Any, limit: int = 64) -> tuple[list[list[Any]], list[bytes | None]]:
    """Drive next_with_token to the end: (events, token after each batch)."""
    from lib.models import streams
    from vgi_rpc.rpc import RpcError

    ev: list[list[Any]] = []
    toks: list[bytes | None] = []
    try:
        for _ in range(limit):
            ab, tok = sess.next_with_token()
            if ab is None:
                ev.append(["end"])
                return ev, toks
            ev.append(["batch", streams.norm_rb(ab.batch, ab.custom_metadata)])
            toks.append(tok)
            if tok is None:
                ev.append(["end"])
                return ev, toks
        ev.append(["runaway"])
    except RpcError as e:
        ev.append(["error", e.error_type, e.error_message])
    return ev, toks


def _same(a: list[list[Any]], b: list[list[Any]]) -> bool:
    if len(a) != len(b):
        return False
    for x, y in zip(a, b, strict=True):
        if x[0] != y[0]:
            return False
        if x[0] == "batch" and x[1] != y[1]:
            return False
        if x[0] == "error" and (x[1] != y[1] or not (x[2] in y[2] or y[2] in x[2])):
            return False
    return True


def _brief(ev: list[list[Any]]) -> list[Any]:
    out: list[Any] = []
    for e in ev:
        if e[0] == "batch":
            d = e[1]["data"]
            first = next(iter(d.values()), [])
            out.append(["batch", e[1]["rows"], str(first[:1])[:40]])
        elif e[0] == "error":
            out.append(["error", e[1], (e[2] or "")[:60]])
        else:
            out.append(e)
    return out


def _slim(m: dict[str, Any]) -> dict[str, Any]:
    return {
        "header": m.get("header"),
        "cols": m["out_cols"],
        "state": m.get("state", "PState"),
        "steps": [{k: v for k, v in s.items() if k in ("act", "rows", "pad", "exc") or (k == "logs" and v)} for s in m["steps"]],
    }


def _diff_key(ref: list[list[Any]], got: list[list[Any]]) -> tuple[str, str]:
    rb = [e for e in ref if e[0] == "batch"]
    gb = [e for e in got if e[0] == "batch"]
    if ref[-1][0] == "error" and got and got[-1][0] == "error" and len(gb) < len(rb) and gb == rb[: len(gb)]:
        return "batches_before_error_lost", "batches emitted before an error in the same turn never reach the client"
    if gb != rb:
        if len(gb) < len(rb) and gb == rb[: len(gb)]:
            return "batches_missing", "fewer batches than the reference"
        if len(gb) > len(rb) and gb[: len(rb)] == rb:
            return "batches_extra", "more batches than the reference"
        if sorted(map(repr, gb)) == sorted(map(repr, rb)):
            return "batches_reordered", "same batches in a different order"
        if len(gb) > len(rb):
            return "batches_repeated_or_foreign", "batch sequence contains repeated / foreign batches"
        return "batches_differ", "batch contents differ from the reference"
    return "terminal_differs", "stream ends differently (end vs error) from the reference"


# ---------------------------------------------------------------------------
# one script
# ---------------------------------------------------------------------------


def _turn_checks(chk: Check, turns: list[dict[str, Any]], inv: list[tuple[Any, ...]], cap: int | None, codec: str | None, wit: dict[str, Any], stats: dict[str, int]) -> list[int]:
    """Per-turn monitors; returns data-batch end offsets (relative to the producer stream) found in uncompressed turns."""
    from lib.models import streams

    bounds: list[int] = []
    cname = codec or "identity"
    for ti, t in enumerate(turns):
        nxt = turns[ti + 1]["mark"] if ti + 1 < len(turns) else len(inv)
        steps = [e for e in inv[t["mark"] : nxt] if e[0] == "step"]
        stats["turns"] += 1
        stats["max_raw_body"] = max(stats["max_raw_body"], len(t["raw"]))
        if cap is not None and steps:
            chk.hit("process_budget_monitor")
            for j, e in enumerate(steps):
                if j > 0 and e[5] is not None and e[5] <= 0:
                    chk.violation(
                        f"process_entered_after_cap_reached:{cname}",
                        "process() entered in a turn whose body had already reached max_response_bytes",
                        {**wit, "turn": ti, "iteration": j, "remaining": e[5], "cap": cap},
                    )
                    break
        # wire form: only where the server-side counter and the decoded body measure the same bytes
        plain = t["coding"] == "identity" or t["path"].endswith("/init")
        if not plain or t["status"] != 200:
            continue
        try:
            ss = streams.split_streams(t["decoded"])
        except Exception:  # noqa: BLE001
            chk.violation(f"turn_body_not_ipc:{cname}", "turn body is not a sequence of IPC streams", {**wit, "turn": ti})
            continue
        if not ss:
            continue
        data_stream = ss[-1]
        base = ss[-2]["end"] if len(ss) > 1 else 0
        ends = [b["end"] - base for b in data_stream["batches"] if b["kind"] in ("data", "pointer")]
        bounds.extend(ends)
        if cap is not None and len(ends) > 1:
            chk.hit("turn_body_offsets_checked")
            for j in range(1, len(ends)):
                if ends[j - 1] >= cap:
                    chk.violation(
                        f"turn_body_exceeds_cap_by_more_than_last_batch:{cname}",
                        "a data batch was written after the turn body had already reached max_response_bytes",
                        {**wit, "turn": ti, "prev_end": ends[j - 1], "cap": cap},
                    )
                    break
        if cap is not None and ends:
            over = max(0, len(t["decoded"]) - base - cap)
            stats["max_overshoot"] = max(stats["max_overshoot"], over)
    return bounds


def _cap_class(cap: int | None, bounds: list[int]) -> str:
    if cap is None:
        return "unbounded"
    if cap == 1:
        return "one"
    if cap in bounds:
        return "at_boundary"
    if cap - 1 in bounds:
        return "boundary+1"
    if cap + 1 in bounds:
        return "boundary-1"
    if bounds and cap > max(bounds):
        return "above_all"
    return "between"


def _run_script(chk: Check, m: dict[str, Any], job: dict[str, Any], rng: random.Random, stats: dict[str, int]) -> None:
    from lib.models import streams
    from vgi_rpc.http import http_connect
    from vgi_rpc.rpc import RpcError

    program = {"name": "GenSvc", "methods": [m], "calls": []}
    term = m["_term"]
    skind = m.get("state", "PState")
    shape = f"{term}:{skind}:{'hdr' if m.get('header') else 'nohdr'}"
    wit0 = {"method": _slim(m)}

    # ---- reference: pipe --------------------------------------------------------------
    with streams.open_conn(program, {"kind": "pipe"}) as (proxy, _impl, _tee):
        done, ref = streams.run_with_watchdog(lambda: _open_and_iterate(proxy), 30.0)
    if not done or isinstance(ref, BaseException):
        chk.inconclusive_because(f"pipe reference did not complete: {ref!r}")
        return
    model = streams.model_producer(m)
    if not _same(model, ref):
        chk.skip("pipe_reference_differs_from_model(C10 subject)")
        return
    nb = len([e for e in ref if e[0] == "batch"])

    def http_leg(cap: int | None, codec: str | None, cache_entries: int | None = None) -> tuple[list[list[Any]], list[dict[str, Any]], list[tuple[Any, ...]]] | None:
        kw: dict[str, Any] = {}
        if cap is not None:
            kw["max_response_bytes"] = cap
        if cache_entries is not None:
            kw["call_state_cache_entries"] = cache_entries
        proto, impl, client = streams.make_http(program, app_kwargs=kw, accept=codec)
        client.on_request = lambda: len(impl.inv)
        with http_connect(proto, client=client, compression_level=None) as px:
            done, ev = streams.run_with_watchdog(lambda: _open_and_iterate(px), 30.0)
        if not done:
            chk.inconclusive_because("watchdog: HTTP iteration did not return")
            return None
        if isinstance(ev, BaseException):
            chk.violation(f"client_raised_unexpected:{type(ev).__name__}", f"HTTP client raised {type(ev).__name__}: {str(ev)[:160]}", {**wit0, "cap": cap, "codec": codec})
            return None
        return ev, client.turns, list(impl.inv)

    # ---- differential over caps x codecs ------------------------------------------------
    first = http_leg(10**9, None)
    if first is None:
        return
    bounds0 = _turn_checks(chk, first[1], first[2], 10**9, None, {**wit0, "cap": 10**9}, stats)
    total = max(bounds0) if bounds0 else 64
    caps: list[int | None] = [None, 1, 10**9]
    for b in bounds0:
        caps += [b - 1, b, b + 1]
    if job["all_caps"]:
        caps += list(range(1, total + 40))
    else:
        caps += [rng.randint(2, total + 10) for _ in range(3)]
    seen_caps: set[int | None] = set()
    queue = [c for c in caps if c is None or c >= 1]
    later_round_budget = 0 if job["all_caps"] else job["later_caps"]
    while queue:
        cap = queue.pop(0)
        if cap in seen_caps:
            continue
        seen_caps.add(cap)
        for codec in CODECS:
            if job["all_caps"] and codec is not None and cap not in bounds0 and cap not in (None, 1, 10**9) and rng.random() > 0.15:
                continue
            leg = (first if (cap == 10**9 and codec is None) else http_leg(cap, codec))
            if leg is None:
                continue
            ev, turns, inv = leg
            wit = {**wit0, "cap": cap, "codec": codec or "identity"}
            cls = f"diff:{codec or 'identity'}:{_cap_class(cap, bounds0)}:{shape}:turns{min(len(turns), 4)}"
            chk.case(cls)
            chk.hit("http_trace_compared_to_pipe")
            if len(turns) > 1:
                chk.hit("multi_turn_stream")
            if any(t["coding"] != "identity" for t in turns):
                chk.hit("compressed_turn_seen")
            if not _same(ref, ev):
                key, what = _diff_key(ref, ev)
                chk.violation(f"{key}:{'capped' if cap is not None else 'uncapped'}", what, {**wit, "reference": _brief(ref), "http": _brief(ev), "turns": len(turns)})
            bnds = _turn_checks(chk, turns, inv, cap, codec, wit, stats) if leg is not first else []
            # boundaries of later turns become caps of a further round (exact-boundary hits beyond the first turn)
            if codec is None and cap is not None and later_round_budget > 0 and len(turns) > 1:
                for b in bnds:
                    for c in (b, b + 1):
                        if c not in seen_caps and later_round_budget > 0 and c >= 1:
                            queue.append(c)
                            later_round_budget -= 1
        if len(chk.samples) < 2 and cap not in (None, 1, 10**9):
            chk.sample({"script": _slim(m), "cap": cap, "reference": _brief(ref), "turn_body_bytes(last codec)": [len(t["raw"]) for t in turns][:12]})

    # ---- resumption -------------------------------------------------------------------
    if nb == 0:
        chk.skip("no_batches_no_resume_point")
        return
    for a_cfg in job["a_cfgs"]:
        kwA: dict[str, Any] = dict(a_cfg["kw"])
        protoA, implA, clientA = streams.make_http(program, app_kwargs=kwA)
        with http_connect(protoA, client=clientA, compression_level=None) as pa_:
            try:
                sessA = pa_.p()
            except Exception as exc:  # noqa: BLE001 - init-turn error: nothing to resume
                if ref[0][0] == "error":
                    chk.skip("error_in_first_turn_no_resume_point")
                    continue
                chk.violation(f"resume_walk_init_failed:{type(exc).__name__}", "stream init failed on the resume walk although the pipe run succeeds", {**wit0, "A": a_cfg["tag"]})
                continue
            done, walked = streams.run_with_watchdog(lambda sessA=sessA: _walk_tokens(sessA), 30.0)
            if not done or isinstance(walked, BaseException):
                chk.violation(f"next_with_token_failed:{a_cfg['tag']}", f"next_with_token walk failed: {walked!r}"[:200], {**wit0, "A": a_cfg["tag"]})
                continue
            evA, toks = walked
            cls = f"walk:{a_cfg['tag']}:{shape}"
            chk.case(cls)
            chk.hit("next_with_token_walk_compared")
            if not _same(ref, evA):
                key, what = _diff_key(ref, evA)
                chk.violation(f"next_with_token_{key}", what, {**wit0, "A": a_cfg["tag"], "reference": _brief(ref), "got": _brief(evA)})
                continue
            # app B shares the key; one B instance is kept so that its cache is cold for the first resume and warm later
            for b_cfg in job["b_cfgs"]:
                protoB, implB, clientB = streams.make_http(program, app_kwargs=dict(b_cfg["kw"]), accept=b_cfg.get("accept"))
                clientB.on_request = lambda implB=implB: len(implB.inv)
                with http_connect(protoB, client=clientB, compression_level=None) as pb_:
                    order = list(range(len(toks)))
                    if b_cfg.get("shuffle"):
                        rng.shuffle(order)
                    served_before = False
                    for i in order:
                        tok = toks[i]
                        if tok is None:
                            continue
                        expect = [e for e in ref[i + 1 :]]
                        for api in job["apis"]:
                            if api == "same_app":
                                target_px, where = pa_, "A"
                            else:
                                target_px, where = pb_, "B"
                            if api == "same_app" and b_cfg is not job["b_cfgs"][0]:
                                continue
                            cache = "n/a"
                            if where == "B":
                                cache = "disabled" if b_cfg["kw"].get("call_state_cache_entries") == 0 else ("warm" if served_before else "cold")

                            def go(api: str = api, target_px: Any = target_px, tok: bytes = tok) -> list[list[Any]]:
                                if api in ("resume_stream", "same_app"):
                                    s = target_px.resume_stream("p", tok)
                                    return _walk_tokens(s)[0] if b_cfg["kw"].get("max_response_bytes") in (None, 1) else _iterate(s)
                                if api == "resume_iter":
                                    return _iterate(target_px.resume_stream("p", tok))
                                if api == "seek_to_token":
                                    try:
                                        s = target_px.p()
                                    except RpcError:
                                        return [["fresh_session_failed"]]
                                    s.seek_to_token(tok)
                                    return _walk_tokens(s)[0] if b_cfg["kw"].get("max_response_bytes") in (None, 1) else _iterate(s)
                                raise AssertionError(api)

                            if api == "seek_to_token" and ref[0][0] == "error":
                                continue
                            done, got = streams.run_with_watchdog(go, 30.0)
                            posc = "first" if i == 0 else ("last" if i == len(toks) - 1 else "middle")
                            cls = f"resume:{api}:{where}:{b_cfg['tag'] if where == 'B' else a_cfg['tag']}:{cache}:{posc}:{shape}"
                            chk.case(cls)
                            chk.hit("resume_compared")
                            if where == "B":
                                chk.hit(f"resume_on_B_{cache}")
                                served_before = True
                            wit = {**wit0, "A": a_cfg["tag"], "B": b_cfg["tag"], "api": api, "resume_after_batch": i, "cache": cache}
                            if not done:
                                chk.inconclusive_because("watchdog: resume did not return")
                                continue
                            if got == [["fresh_session_failed"]]:
                                # seek_to_token needs a freshly initialised session; with an error inside B's first turn the
                                # stream call itself raises (the lost-batches defect reported by the diff legs) - not a resume issue
                                chk.skip("seek_to_token_fresh_session_raised_script_error")
                                continue
                            if isinstance(got, BaseException):
                                chk.violation(f"resume_raised:{api}:{where}:{type(got).__name__}", f"resume raised {type(got).__name__}: {str(got)[:160]}", wit)
                                continue
                            if not _same(expect, got):
                                key, what = _diff_key(expect, got) if expect and got else ("terminal_differs", "resume outcome differs")
                                chk.violation(
                                    f"resume_{key}:{api}:{where}",
                                    f"resuming from a per-batch token does not yield exactly the remaining batches ({what})",
                                    {**wit, "expected": _brief(expect), "got": _brief(got)},
                                )
                    # call-state owner must survive token round trips unchanged (planted at init)
                    if skind == "PStateCS":
                        # only continuation turns: there the framework (not the scripted init method) binds the call state
                        owners = set()
                        for ti, t in enumerate(clientB.turns):
                            if not t["path"].endswith("/exchange"):
                                continue
                            nxt = clientB.turns[ti + 1]["mark"] if ti + 1 < len(clientB.turns) else len(implB.inv)
                            owners |= {e[6] for e in implB.inv[t["mark"] : nxt] if e[0] == "step"}
                        if owners - {"anon"}:
                            chk.violation("resumed_state_lost_call_state", "process() on the resuming app saw a different / missing call state", {**wit0, "owners": sorted(map(str, owners))})
                        elif owners:
                            chk.hit("call_state_seen_on_resuming_app")


def run_shard(job: dict[str, Any]) -> dict[str, Any]:
    import warnings

    warnings.simplefilter("ignore")
    chk = Check(PID, job["tier"], job["seed"])
    chk.rng = random.Random(f"C11:{job['seed']}:{job['index']}")
    stats = {"turns": 0, "max_raw_body": 0, "max_overshoot": 0}
    for si in range(job["index"], job["nscripts"], job["n"]):
        rng = random.Random(f"C11:{job['seed']}:script:{si}")
        sub = dict(job)
        sub["all_caps"] = si < job["all_caps_scripts"]
        m = _gen_method(rng, si, small=sub["all_caps"])
        try:
            _run_script(chk, m, sub, rng, stats)
        except Exception as exc:  # noqa: BLE001
            import traceback

            chk.inconclusive_because(f"harness error {type(exc).__name__}: {exc} :: {traceback.format_exc()[-500:]}")
    chk.extra["turns_observed"] = stats["turns"]
    chk.extra["max_raw_turn_body_bytes"] = stats["max_raw_body"]
    chk.extra["max_body_overshoot_beyond_cap_bytes"] = stats["max_overshoot"]
    res = chk.to_result()
    res["extra_counts"] = {"turns_observed": stats["turns"]}
    res["maxima"] = {"max_raw_turn_body_bytes": stats["max_raw_body"], "max_body_overshoot_beyond_cap_bytes": stats["max_overshoot"]}
    return res


def main(tier: str, seed: int) -> int:
    chk = Check(PID, tier, seed, level=CATEGORY, rule=RULE)
    chk.require(
        "http_trace_compared_to_pipe",
        "multi_turn_stream",
        "compressed_turn_seen",
        "process_budget_monitor",
        "turn_body_offsets_checked",
        "next_with_token_walk_compared",
        "resume_compared",
        "resume_on_B_cold",
        "resume_on_B_warm",
        "resume_on_B_disabled",
        "call_state_seen_on_resuming_app",
    )
    chk.assumptions = [
        "the pipe trace of the same script is the reference (it is first cross-checked against the lifecycle model; a disagreement is C10's subject and skipped here)",
        "cap clause judged in the form: no process() entered once the turn body reached the cap (server-side remaining_response_bytes == 0 on a non-first "
        "iteration) and, on uncompressed bodies, no data batch starts at or beyond the cap; header stream, continuation sentinel and EOS bytes are not charged",
        "HTTP driven in-process through the WSGI callable; zstd/gzip libraries trusted",
    ]
    quick = tier == "quick"
    n = shard.ncpu()
    base = {
        "tier": tier,
        "seed": seed,
        "n": n,
        "nscripts": 40 if quick else 200,
        "all_caps_scripts": 0 if quick else 16,
        "later_caps": 6 if quick else 20,
        "a_cfgs": [{"tag": "A_nocap", "kw": {}}, {"tag": "A_cap1_nocache", "kw": {"max_response_bytes": 1, "call_state_cache_entries": 0}}],
        "b_cfgs": [
            {"tag": "B_nocap", "kw": {}},
            {"tag": "B_nocache", "kw": {"call_state_cache_entries": 0}, "shuffle": True},
            {"tag": "B_cap_mid_zstd", "kw": {"max_response_bytes": 2000}, "accept": "zstd", "shuffle": True},
            {"tag": "B_cap_big_gzip", "kw": {"max_response_bytes": 10**9}, "accept": "gzip"},
        ],
        "apis": ["same_app", "resume_stream", "resume_iter", "seek_to_token"],
    }
    jobs = [{**base, "index": i} for i in range(n)]
    maxima: dict[str, int] = {}
    for res in shard.pmap("checks.c11", "run_shard", jobs, timeout=400 if quick else 2400):
        chk.merge(res)
        for k, v in res.get("maxima", {}).items():
            maxima[k] = max(maxima.get(k, 0), v)
    chk.extra.update(maxima)
    chk.exhaustive["every cap 1..N for the first scripts"] = not quick
    chk.exhaustive["every per-batch resume point of every script"] = True
    chk.exhaustive["scripts"] = False
    return chk.finish()

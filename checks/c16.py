"""C16 - HTTP response size caps are enforced.

The real WSGI app is driven at its HTTP boundary (lib/httpdrv through the recording
client of lib/models/streams.py) with results whose *framed* size is measured first on an
uncapped twin and then replayed under caps placed at framed-1 / framed / framed+1 and
logical-1 / logical / logical+1 bytes, with and without log batches, for identity / zstd /
gzip response codings; a binary search on the payload length lands exactly on the framed
boundary of fixed caps.  External storage is an in-process recording ``ExternalStorage``
object: every ``upload()`` the server performs is recorded with its byte count, so
"bytes uploaded per response" and "an over-cap upload must not happen at all" are judged
at the storage backend, never through client-side resolution.

Oracle (arithmetic on recorded lengths):
* unary / exchange: a successful body is never longer than max_response_bytes; a result
  whose framed size exceeds the cap becomes an RpcError naming the cap; a result that fits
  is delivered;
* the bytes received by the storage backend during one response never exceed
  max_externalized_response_bytes - neither on a successful response nor as an upload
  that is complained about afterwards;
* producer turns: process() is not entered once the turn body reached the wire cap, and
  the uploads of one turn stay within the external cap.
"""

from __future__ import annotations

import random
from typing import Any

from lib import shard
from lib.evidence import Check

PID = "C16"
ENGINE = "E2-raw-drivers+E1-svcgen-rig"
TECHNIQUE = "boundary-size workloads at the HTTP boundary with a recording storage backend; arithmetic oracle on body / upload lengths"
LEVEL_TEXT = (
    "Exploration: unary, exchange and producer responses of the real HTTP app with payload sizes chosen so that the framed body / "
    "upload lands on cap-1, cap, cap+1 (framed and logical bytes; binary search for fixed caps), with and without log batches, three "
    "response codings, cap pairs including None, externalisation thresholds below and above the batch size, upload compression "
    "off/zstd/gzip. Error replies are judged too (bare cap-error envelope, cap error carrying other batches, failing method with logs). Held means no recorded body or upload length among the executions listed contradicted the caps."
)
LEVEL_NOTE = "HTTP driven in-process; storage is a recording object (no network); framed sizes are measured on an uncapped twin of the same app"
CATEGORY = "exploration"
RULE = (
    "case = (method kind, logs?, payload size class, coding, cap kind and relation (framed/logical -1/0/+1, tiny, none), external "
    "threshold relation, upload compression, external cap relation); distinct class = that tuple without the concrete sizes"
)

CT = "application/vnd.apache.arrow.stream"
BIGMSG = "m" * 300


def _program() -> dict[str, Any]:
    def un(name: str, logs: list[Any], ret: str = "bytes") -> dict[str, Any]:
        return {"name": name, "kind": "unary", "params": [("p0", (ret,))], "ret": (ret,), "u": {"logs": logs, "act": ("echo", "p0")}}

    def ex(name: str, logs: list[Any]) -> dict[str, Any]:
        return {
            "name": name,
            "kind": "exchange",
            "params": [],
            "header": False,
            "out_cols": ["b"],
            "in_cols": ["b"],
            "init": {"logs": [], "act": ("ok",)},
            "steps": [{"logs": logs, "act": "emit"}],
        }

    logs = [("INFO", BIGMSG, {"k": "v"}), ("DEBUG", "second", {})]
    return {"name": "CapSvc", "methods": [un("u", []), un("ul", logs), un("us", [], "str"), ex("x", []), ex("xl", logs)], "calls": []}


def _producer_program(rng: random.Random) -> dict[str, Any]:
    n = rng.choice([1, 2, 3, 4, 6])
    steps = []
    for j in range(n):
        steps.append(
            {
                "logs": [("INFO", "l" * rng.choice([5, 200]), {})] if rng.random() < 0.4 else [],
                "act": "emit_finish" if (j == n - 1 and rng.random() < 0.4) else "emit",
                "rows": rng.choice([1, 2, 5]),
                "pad": rng.choice([10, 300, 1000, 4000]),
            }
        )
    m = {
        "name": "p",
        "kind": "producer",
        "params": [],
        "header": rng.random() < 0.3,
        "out_cols": rng.choice([["b"], ["i", "s"]]),
        "init": {"logs": [("INFO", "init", {})] if rng.random() < 0.3 else [], "act": ("ok",)},
        "steps": steps,
    }
    return {"name": "CapSvc", "methods": [m], "calls": []}


class RecStorage:
    """ExternalStorage that only records what it is asked to store."""

    def __init__(self) -> None:
        self.uploads: list[tuple[int, str | None]] = []

    def upload(self, data: bytes, schema: Any, *, content_encoding: str | None = None) -> str:
        self.uploads.append((len(data), content_encoding))
        return f"https://recording.invalid/obj/{len(self.uploads)}"


# ---------------------------------------------------------------------------
# drivers (one response each)
# ---------------------------------------------------------------------------


def _mk(program: dict[str, Any], *, cap: int | None, ecap: int | None, coding: str | None, ext: dict[str, Any] | None) -> tuple[Any, Any, Any, RecStorage | None]:
    from lib.models import streams

    rec = None
    cfg = None
    if ext is not None:
        from vgi_rpc.external import Compression, ServerExternalConfig

        rec = RecStorage()
        comp = None if ext.get("compression") is None else Compression(algorithm=ext["compression"])
        cfg = ServerExternalConfig(storage=rec, externalize_threshold_bytes=ext["threshold"], compression=comp)
    kw: dict[str, Any] = {}
    if cap is not None:
        kw["max_response_bytes"] = cap
    if ecap is not None:
        kw["max_externalized_response_bytes"] = ecap
    proto, impl, client = streams.make_http(program, app_kwargs=kw, accept=coding, server_external=cfg)
    client.on_request = lambda: (len(impl.inv), len(rec.uploads) if rec is not None else 0)
    return proto, impl, client, rec


def _payload(rng: random.Random, n: int, as_str: bool) -> Any:
    if as_str:
        return "".join(rng.choice("abcdefghijklmnopqrstuvwxyz0123456789") for _ in range(min(n, 64))) * (n // 64 + 1)
    return rng.randbytes(n)


def _call_unary(proto: Any, client: Any, name: str, payload: Any) -> dict[str, Any]:
    import io

    from vgi_rpc.rpc import _send_request, rpc_methods

    info = rpc_methods(proto)[name]
    b = io.BytesIO()
    _send_request(b, info, {"p0": payload})
    client.post(f"/{name}", content=b.getvalue(), headers={"Content-Type": CT})
    return client.turns[-1]


def _call_exchange(proto: Any, client: Any, name: str, payload: bytes, rows: int) -> dict[str, Any] | None:
    """Open an exchange stream with the real client and perform one exchange; returns the exchange turn."""
    import pyarrow as pa

    from vgi_rpc.http import http_connect
    from vgi_rpc.rpc import AnnotatedBatch, RpcError

    with http_connect(proto, client=client, compression_level=None) as px:
        try:
            sess = getattr(px, name)()
        except RpcError:
            return None
        n0 = len(client.turns)
        per = max(0, len(payload) // max(1, rows))
        vals = [payload[i * per : (i + 1) * per] for i in range(rows)]
        rb = pa.RecordBatch.from_pydict({"b": vals}, schema=pa.schema([pa.field("b", pa.binary())]))
        try:
            ab = sess.exchange(AnnotatedBatch(batch=rb))
            ab.release()
        except RpcError:
            pass
        except Exception:  # noqa: BLE001 - e.g. pointer batch not resolvable without a client config; the boundary record is what counts
            pass
        if len(client.turns) <= n0:
            return None
        return client.turns[n0]


def _outcome(turn: dict[str, Any]) -> dict[str, Any]:
    """Classify one recorded HTTP response."""
    from lib import httpdrv

    out: dict[str, Any] = {"status": turn["status"], "raw": len(turn["raw"]), "decoded": len(turn["decoded"]), "coding": turn["coding"], "kind": "other", "msg": ""}
    if turn["status"] != 200:
        return out
    try:
        streams_ = httpdrv.parse_ipc_multi(turn["decoded"])
    except Exception:  # noqa: BLE001
        out["kind"] = "undecodable"
        return out
    err = None
    for s in streams_:
        err = err or httpdrv.error_of(s)
    if err is not None:
        out["kind"] = "error"
        out["msg"] = err["message"]
        # what else travels in the body that replaces the result (log batches, data): the error envelope alone is
        # one EXCEPTION batch
        out["other_batches"] = sum(1 for s in streams_ for _b, md in s if md.get("vgi_rpc.log_level") != b"EXCEPTION")
        out["flagged"] = turn["rpc_error"]
        if "max_response_bytes" in err["message"]:
            out["cap_error"] = "wire"
        elif "max_externalized_response_bytes" in err["message"]:
            out["cap_error"] = "external"
        return out
    out["kind"] = "ok"
    out["pointer"] = any(b.num_rows == 0 and "vgi_rpc.location" in md for s in streams_ for b, md in s)
    return out


def _min_error_envelope(method: str, schema_cols: int) -> int:
    """Size of the smallest conforming cap-error body (no traceback): a floor below which no server could comply."""
    import pyarrow as pa

    from lib import httpdrv

    sch = pa.schema([pa.field("result", pa.binary())][:schema_cols] if schema_cols else [])
    b = pa.RecordBatch.from_pylist([], schema=sch)
    md = {
        b"vgi_rpc.log_level": b"EXCEPTION",
        b"vgi_rpc.log_message": f"RuntimeError: HTTP body exceeds max_response_bytes (99999999 > 99999999) for method '{method}'".encode(),
        b"vgi_rpc.log_extra": b'{"exception_type": "RuntimeError"}',
        b"vgi_rpc.server_id": b"0123456789abcdef",
    }
    return len(httpdrv.ipc_bytes(b, md))


# ---------------------------------------------------------------------------
# judging
# ---------------------------------------------------------------------------


def _judge(
    chk: Check,
    kind: str,
    turn: dict[str, Any],
    uploads: list[tuple[int, str | None]],
    *,
    cap: int | None,
    ecap: int | None,
    framed: int | None,
    upload_ref: int | None,
    floor: int,
    steps: int,
    wit: dict[str, Any],
    ext: dict[str, Any] | None,
    logical: int = 0,
    jitter: int = 0,
) -> None:
    o = _outcome(turn)
    up = sum(n for n, _ in uploads)
    wit = {**wit, "cap": cap, "ecap": ecap, "framed_uncapped": framed, "upload_uncapped": upload_ref, "outcome": {k: v for k, v in o.items() if k != "msg"}, "msg": o["msg"][:120], "uploads": uploads[:6]}
    coding = o["coding"]
    chk.hit("response_judged")
    if o["kind"] in ("other", "undecodable"):
        chk.violation(f"unexpected_response:{kind}:{o['status']}", "response is neither a result nor an RPC error stream", wit)
        return
    if steps != 1 and kind in ("unary", "exchange"):
        chk.violation(f"method_invocations:{kind}", "method body ran a number of times different from one for one request", {**wit, "invocations": steps})
    # --- external channel: judged on every response, successful or not --------------------
    if ecap is not None and uploads:
        chk.hit("upload_under_external_cap_observed")
        if up > ecap:
            key, what = _overcap_key(kind, logical, ecap, o["kind"] == "ok", ext)
            chk.violation(key, what, {**wit, "logical_payload_bytes": logical})
    if ecap is not None and ext is not None and upload_ref is not None and not uploads and o["kind"] == "error" and o.get("cap_error") == "external":
        chk.hit("external_overshoot_refused_before_upload")
        # exchange uploads carry the sealed cursor token, whose length jitters by a few bytes between runs
        if upload_ref + (jitter if kind == "exchange" else 0) <= ecap:
            if ext.get("compression") is None:
                chk.violation(f"within_external_cap_refused:{kind}", "an upload that fits max_externalized_response_bytes was refused", wit)
            else:
                chk.skip("compressed_upload_refused_on_uncompressed_size(accounting not fixed by the statement)")
    # --- wire ---------------------------------------------------------------------------
    if o["kind"] == "ok":
        chk.hit("successful_response_seen")
        if cap is not None:
            chk.hit("successful_body_under_wire_cap_checked")
            if o["raw"] > cap:
                if o["decoded"] <= cap:
                    chk.violation(
                        "body_exceeds_cap:coding_expansion",
                        f"successful response fits max_response_bytes uncompressed but its {coding} coded body on the wire is longer than the cap",
                        wit,
                    )
                else:
                    chk.violation(f"{kind}_body_exceeds_cap:framed_over_cap", "successful response body is longer than max_response_bytes", wit)
        return
    # error
    ce = o.get("cap_error")
    if ce is None:
        chk.violation(f"unexpected_error:{kind}", "an in-cap request failed with an unrelated error", wit)
        return
    chk.hit(f"cap_error_seen_{ce}")
    if not o.get("flagged"):
        chk.violation(f"cap_error_not_flagged:{kind}", "cap error delivered without X-VGI-RPC-Error: true", wit)
    if ce == "wire":
        if cap is None or (framed is not None and framed + jitter <= cap):
            chk.violation(f"within_cap_result_refused:{kind}", "a result whose framed body fits max_response_bytes was turned into a cap error", wit)
        if cap is not None and o["raw"] > cap:
            if cap < floor:
                chk.skip("cap_below_minimal_error_envelope")
            else:
                if o.get("other_batches"):
                    chk.violation(
                        "cap_error_body_exceeds_cap:carries_other_batches",
                        "the error response that replaces an oversize result carries further batches (logs / data) besides the error and is longer than max_response_bytes",
                        wit,
                    )
                else:
                    chk.violation("cap_error_body_exceeds_cap", "the error response that replaces an oversize result is itself longer than max_response_bytes", wit)
    else:
        if ecap is None:
            chk.violation(f"external_cap_error_without_cap:{kind}", "external cap error although no external cap is configured", wit)
        if cap is not None and o["raw"] > cap:
            if cap < floor:
                chk.skip("cap_below_minimal_error_envelope")
            else:
                if o.get("other_batches"):
                    chk.violation(
                        "cap_error_body_exceeds_cap:carries_other_batches",
                        "the error response that replaces an oversize result carries further batches (logs / data) besides the error and is longer than max_response_bytes",
                        wit,
                    )
                else:
                    chk.violation("cap_error_body_exceeds_cap", "the error response that replaces an oversize result is itself longer than max_response_bytes", wit)


def _overcap_key(kind: str, logical: int, ecap: int, succeeded: bool, ext: dict[str, Any] | None) -> tuple[str, str]:
    """Mechanism key for an upload volume beyond max_externalized_response_bytes.

    regime 'framing_gap': the user payload alone fits the cap, only IPC framing / log batches / coding overhead push the
    upload over it (the pre-flight estimate and the real upload differ); 'beyond_logical': the payload bytes alone exceed it.
    """
    regime = "beyond_logical" if logical > ecap else "framing_gap"
    who = "compressed_upload" if (ext or {}).get("compression") and regime == "framing_gap" else kind
    if succeeded:
        return (
            f"external_overcap_upload:{regime}:then_success:{who}",
            "a successful response uploaded more bytes to external storage than max_externalized_response_bytes",
        )
    if regime == "framing_gap" and who == "compressed_upload":
        # same accounting question as then_success:compressed_upload (raw vs. coded upload size)
        return (
            "external_overcap_upload:framing_gap:then_error:compressed_upload",
            "a compressed upload larger than max_externalized_response_bytes was performed (the cap is accounted on the uncompressed size) and the response failed for another reason",
        )
    if regime == "framing_gap":
        return (
            "external_overcap_upload:framing_gap:then_error",
            "an upload exceeding max_externalized_response_bytes was performed and only refused afterwards (not before upload)",
        )
    return (
        f"external_overcap_upload:beyond_logical:then_error:{kind}",
        "an upload whose payload alone exceeds max_externalized_response_bytes was performed and only refused afterwards",
    )


# ---------------------------------------------------------------------------
# scenarios
# ---------------------------------------------------------------------------


def _logical_bytes(m: dict[str, Any], pos: int) -> int:
    """User payload bytes of the batch a scripted producer emits at *pos* (values only, no offsets / framing)."""
    from lib import svcgen

    if pos >= len(m["steps"]):
        return 0
    st = m["steps"][pos]
    data = svcgen.make_rows(m["name"], pos, st.get("rows", 1), m["out_cols"], st.get("pad", 0))
    n = 0
    for c, vals in data.items():
        for v in vals:
            n += 8 if c[0] in ("i", "f") else (4 if c[0] == "n" else len(v if isinstance(v, bytes) else str(v).encode()))
    return n


def _size_class(n: int) -> str:
    if n == 0:
        return "empty"
    if n < 64:
        return "tiny"
    if n < 4096:
        return "small"
    if n < 100_000:
        return "mid"
    return "big"


def _one(program: dict[str, Any], kind: str, name: str, payload: Any, rows: int, *, cap: int | None, ecap: int | None, coding: str | None, ext: dict[str, Any] | None) -> tuple[dict[str, Any] | None, list[tuple[int, str | None]], int]:
    proto, impl, client, rec = _mk(program, cap=cap, ecap=ecap, coding=coding, ext=ext)
    if kind == "unary":
        turn = _call_unary(proto, client, name, payload)
    else:
        turn = _call_exchange(proto, client, name, payload, rows)
    if turn is None:
        return None, [], 0
    inv0, up0 = turn["mark"]
    nxt_i = len(impl.inv)
    steps = len([e for e in impl.inv[inv0:nxt_i] if e[0] in ("unary", "step")])
    ups = list(rec.uploads[up0:]) if rec is not None else []
    return turn, ups, steps


def _wire_scenarios(chk: Check, rng: random.Random, tier: str, part: int, nparts: int) -> None:
    program = _program()
    sizes = [0, 1, 7, 8, 9, 100, 1000, 5000, 65_536, 200_000]
    if tier != "quick":
        sizes += [2, 63, 64, 65, 4095, 4096, 4097, 20_000, 1_000_000]
    targets = [("unary", "u", False), ("unary", "ul", True), ("unary", "us", False), ("exchange", "x", False), ("exchange", "xl", True)]
    combos = [(t, L) for t in targets for L in sizes]
    for ci, ((kind, name, logs), L) in enumerate(combos):
        if ci % nparts != part:
            continue
        payload = _payload(rng, L, as_str=(name == "us"))
        rows = 1 if kind == "unary" else rng.choice([1, 1, 3])
        ref, _u, _s = _one(program, kind, name, payload, rows, cap=None, ecap=None, coding=None, ext=None)
        ref2, _u2, _s2 = _one(program, kind, name, payload, rows, cap=None, ecap=None, coding=None, ext=None)
        if ref is None or ref2 is None or abs(len(ref["raw"]) - len(ref2["raw"])) > (16 if kind == "exchange" else 0):
            chk.skip("framed_size_not_reproducible")
            continue
        # exchange bodies carry a sealed cursor token whose length varies by a few bytes between runs: the
        # reference is the larger observation and refusals are judged with 16 bytes of slack
        framed = max(len(ref["raw"]), len(ref2["raw"])) if kind == "exchange" else len(ref["raw"])
        floor = _min_error_envelope(name, 1)
        caps = [("framed-1", framed - 1), ("framed", framed), ("framed+1", framed + 1), ("logical-1", L - 1), ("logical", L), ("logical+1", L + 1), ("one", 1), ("none", None)]
        for rel, cap in caps:
            if cap is not None and cap < 1:
                continue
            for coding in (None, "zstd", "gzip"):
                if coding is not None and rel.startswith("logical") and rng.random() < 0.5:
                    continue
                turn, ups, steps = _one(program, kind, name, payload, rows, cap=cap, ecap=None, coding=coding, ext=None)
                cls = f"wire:{kind}:{'logs' if logs else 'nologs'}:{_size_class(L)}:{coding or 'identity'}:{rel}"
                if turn is None:
                    chk.skip("exchange_init_failed_under_cap")
                    continue
                chk.case(cls)
                wit = {"kind": kind, "method": name, "payload_len": L, "coding": coding or "identity", "cap_rel": rel}
                _judge(chk, kind, turn, ups, cap=cap, ecap=None, framed=framed, upload_ref=None, floor=floor, steps=steps, wit=wit, ext=None, logical=L, jitter=16 if kind == "exchange" else 0)
                o = _outcome(turn)
                if cap is not None and framed > cap and o["kind"] == "ok" and o["raw"] <= cap:
                    # only reachable when a response coding shrank the body below the cap: fine for the wire, but the
                    # statement's "oversize result becomes an error" is about the framed result -> recorded, not judged
                    chk.skip("oversize_framed_result_delivered_compressed_under_cap")
                if len(chk.samples) < 2 or chk.rng.random() < 0.004:
                    chk.sample({"class": cls, "payload_len": L, "framed_uncapped": framed, "cap": cap, "raw_body": o["raw"], "outcome": o["kind"], "msg": o["msg"][:90]})


def _search_scenarios(chk: Check, rng: random.Random, tier: str, part: int, nparts: int) -> None:
    """Fixed cap, binary search on the payload length for the last length that fits; then walk across the boundary."""
    program = _program()
    caps = [2048, 4096, 65_536] if tier == "quick" else [1024, 2048, 4096, 10_000, 65_536, 300_000]
    targets = [("unary", "u"), ("unary", "ul"), ("exchange", "x"), ("exchange", "xl")]
    combos = [(t, c) for t in targets for c in caps]
    for ci, ((kind, name), cap) in enumerate(combos):
        if ci % nparts != part:
            continue
        base = rng.randbytes(cap + 64)

        def framed_of(n: int, kind: str = kind, name: str = name, base: bytes = base) -> int | None:
            t, _u, _s = _one(program, kind, name, base[:n], 1, cap=None, ecap=None, coding=None, ext=None)
            return None if t is None else len(t["raw"])

        f0 = framed_of(0)
        if f0 is None or f0 > cap:
            chk.skip("cap_below_empty_result")
            continue
        lo, hi = 0, cap + 32  # framed(lo) <= cap < framed(hi)
        while hi - lo > 1:
            mid = (lo + hi) // 2
            fm = framed_of(mid)
            if fm is not None and fm <= cap:
                lo = mid
            else:
                hi = mid
        chk.hit("binary_search_landed")
        floor = _min_error_envelope(name, 1)
        for n in range(max(0, lo - 9), lo + 10):
            framed = framed_of(n)
            for coding in (None, "zstd"):
                turn, ups, steps = _one(program, kind, name, base[:n], 1, cap=cap, ecap=None, coding=coding, ext=None)
                if turn is None or framed is None:
                    continue
                rel = "fits_exactly" if framed == cap else ("fits" if framed < cap else "over")
                chk.case(f"search:{kind}:{name}:{coding or 'identity'}:{rel}")
                if framed == cap:
                    chk.hit("framed_size_equals_cap")
                wit = {"kind": kind, "method": name, "payload_len": n, "coding": coding or "identity", "search_cap": cap}
                _judge(chk, kind, turn, ups, cap=cap, ecap=None, framed=framed, upload_ref=None, floor=floor, steps=steps, wit=wit, ext=None, logical=n, jitter=16 if kind == "exchange" else 0)


def _ext_scenarios(chk: Check, rng: random.Random, tier: str, part: int, nparts: int) -> None:
    program = _program()
    sizes = [100, 1000, 20_000] if tier == "quick" else [1, 100, 1000, 4096, 20_000, 300_000]
    targets = [("unary", "u", False), ("unary", "ul", True), ("exchange", "x", False), ("exchange", "xl", True)]
    comps = [None, "zstd"] if tier == "quick" else [None, "zstd", "gzip"]
    combos = [(t, L, comp) for t in targets for L in sizes for comp in comps]
    for ci, ((kind, name, logs), L, comp) in enumerate(combos):
        if ci % nparts != part:
            continue
        payload = rng.randbytes(L)
        floor = _min_error_envelope(name, 1)
        for trel, thr in (("below", max(1, L // 2)), ("above", L * 2 + 4096)):
            ext = {"threshold": thr, "compression": comp}
            ref, ups_ref, _s = _one(program, kind, name, payload, 1, cap=None, ecap=None, coding=None, ext=ext)
            if ref is None:
                continue
            framed = len(ref["raw"])
            uref = sum(n for n, _ in ups_ref)
            if trel == "below" and not ups_ref:
                chk.skip("threshold_below_batch_but_no_upload")
            if trel == "above" and ups_ref:
                chk.violation(f"upload_below_threshold:{kind}", "a batch smaller than the externalisation threshold was uploaded", {"method": name, "payload_len": L, "threshold": thr})
            ecaps: list[tuple[str, int | None]] = [("none", None), ("one", 1), ("logical-1", L - 1), ("logical", L), ("logical+1", L + 1), ("logical+16", L + 16)]
            if uref:
                ecaps += [("upload-1", uref - 1), ("upload", uref), ("upload+1", uref + 1), ("upload-100", uref - 100)]
            for erel, ecap in ecaps:
                if ecap is not None and ecap < 1:
                    continue
                for wrel, cap in (("none", None), ("framed", framed), ("framed-1", framed - 1)):
                    if wrel != "none" and erel not in ("none", "upload", "upload-1", "logical"):
                        continue
                    turn, ups, steps = _one(program, kind, name, payload, 1, cap=cap, ecap=ecap, coding=None, ext=ext)
                    if turn is None:
                        chk.skip("exchange_init_failed_under_cap")
                        continue
                    cls = f"ext:{kind}:{'logs' if logs else 'nologs'}:{_size_class(L)}:thr_{trel}:comp_{comp}:ecap_{erel}:wire_{wrel}"
                    chk.case(cls)
                    wit = {"kind": kind, "method": name, "payload_len": L, "threshold": thr, "upload_compression": comp, "ecap_rel": erel, "wire_rel": wrel}
                    _judge(chk, kind, turn, ups, cap=cap, ecap=ecap, framed=framed, upload_ref=uref if uref else None, floor=floor, steps=steps, wit=wit, ext=ext, logical=L, jitter=16)
                    if trel == "below" and ups:
                        chk.hit("externalised_response_seen")
                        if len(chk.samples) < 4:
                            chk.sample({"class": cls, "payload_len": L, "ecap": ecap, "cap": cap, "uploads": ups, "raw_body": len(turn["raw"]), "outcome": _outcome(turn)["kind"]})


def _producer_scenarios(chk: Check, rng: random.Random, tier: str, part: int, nparts: int) -> None:
    from lib.models import streams
    from vgi_rpc.http import http_connect
    from vgi_rpc.rpc import RpcError

    nscripts = 10 if tier == "quick" else 60
    for si in range(nscripts):
        prng = random.Random(f"C16:producer:{chk.seed}:{si}")
        program = _producer_program(prng)
        if si % nparts != part:
            continue
        m = program["methods"][0]

        def run(cap: int | None, ecap: int | None, ext: dict[str, Any] | None, program: dict[str, Any] = program) -> tuple[list[dict[str, Any]], list[tuple[int, str | None]], Any, str] | None:
            proto, impl, client, rec = _mk(program, cap=cap, ecap=ecap, coding=None, ext=ext)

            def go() -> str:
                with http_connect(proto, client=client, compression_level=None) as px:
                    try:
                        n = 0
                        for _ab in px.p():
                            n += 1
                            if n > 60:
                                return "runaway"
                        return "end"
                    except RpcError as e:
                        return "error:" + e.error_message[:100]

            done, res = streams.run_with_watchdog(go, 30.0)
            if not done:
                chk.inconclusive_because("watchdog: producer iteration did not return")
                return None
            if isinstance(res, BaseException):
                res = f"raised:{type(res).__name__}"
            return client.turns, (rec.uploads if rec is not None else []), impl, str(res)

        for trel in ("none", "below", "above"):
            ext = None if trel == "none" else {"threshold": 64 if trel == "below" else 10**7, "compression": prng.choice([None, None, "zstd"])}
            ref = run(10**9, None, ext)
            if ref is None:
                continue
            turns0, ups0, _impl0, _r0 = ref
            # cumulative upload sizes of a single all-in-one turn give the external boundaries
            cum = []
            tot = 0
            for n, _ in ups0:
                tot += n
                cum.append(tot)
            # wire boundaries: data/pointer batch ends of the single turn
            try:
                ss = streams.split_streams(turns0[0]["decoded"])
                base = ss[-2]["end"] if len(ss) > 1 else 0
                wb = [b["end"] - base for b in ss[-1]["batches"] if b["kind"] in ("data", "pointer")]
            except Exception:  # noqa: BLE001
                wb = []
            wire_caps: list[tuple[str, int | None]] = [("none", None), ("one", 1), ("huge", 10**9)]
            for b in wb[:4]:
                wire_caps += [("boundary-1", b - 1), ("boundary", b), ("boundary+1", b + 1)]
            ecaps: list[tuple[str, int | None]] = [("none", None)]
            if cum:
                ecaps += [("one", 1)]
                for c in cum:
                    ecaps += [("cum-1", c - 1), ("cum", c), ("cum+1", c + 1), ("cum-150", c - 150)]
            for wrel, cap in wire_caps:
                for erel, ecap in ecaps:
                    if ecap is not None and ecap < 1:
                        continue
                    if wrel.startswith("boundary") and erel not in ("none", "cum", "cum-1"):
                        continue
                    r = run(cap, ecap, ext)
                    if r is None:
                        continue
                    turns, ups, impl, res = r
                    cls = f"producer:thr_{trel}:wire_{wrel}:ecap_{erel}:{'ok' if res == 'end' else res.split(':')[0]}"
                    chk.case(cls)
                    wit = {"script": [{k: v for k, v in s.items() if k != "logs"} for s in m["steps"]], "header": m["header"], "cap": cap, "ecap": ecap, "threshold": trel, "result": res}
                    if res == "runaway" or res.startswith("raised"):
                        chk.violation(f"producer_iteration_failed:{res.split(':')[0]}", "producer iteration did not terminate normally", wit)
                        continue
                    for ti, t in enumerate(turns):
                        inv0, up0 = t["mark"]
                        inv1, up1 = turns[ti + 1]["mark"] if ti + 1 < len(turns) else (len(impl.inv), len(ups))
                        steps = [e for e in impl.inv[inv0:inv1] if e[0] == "step"]
                        tups = ups[up0:up1]
                        tsum = sum(n for n, _ in tups)
                        o = _outcome(t)
                        chk.hit("producer_turn_judged")
                        if cap is not None:
                            chk.hit("producer_wire_budget_monitor")
                            for j, e in enumerate(steps):
                                if j > 0 and e[5] is not None and e[5] <= 0:
                                    chk.violation("producer_process_entered_after_wire_cap", "process() entered in a turn whose body already reached max_response_bytes", {**wit, "turn": ti, "iteration": j})
                                    break
                        if ecap is not None and tups:
                            chk.hit("producer_upload_under_external_cap_observed")
                            if tsum > ecap:
                                logical = sum(_logical_bytes(m, e[2]) for e in steps[: len(tups)])
                                key, what = _overcap_key("producer", logical, ecap, o["kind"] == "ok", ext)
                                chk.violation(key, what + " (producer turn)", {**wit, "turn": ti, "uploads": tups[:8], "turn_upload_bytes": tsum, "logical_payload_bytes": logical, "msg": o["msg"][:100]})
                        if o["kind"] == "error" and o.get("cap_error") == "external":
                            chk.hit("producer_external_cap_error_seen")
                            if ecap is None:
                                chk.violation("external_cap_error_without_cap:producer", "external cap error although no external cap is configured", wit)


# ---------------------------------------------------------------------------
# shards / main
# ---------------------------------------------------------------------------


def _failing_method_scenarios(chk: Check, rng: random.Random, tier: str, part: int, nparts: int) -> None:
    """A method that logs and then raises: its error reply (logs + EXCEPTION batch) is an HTTP response body too."""
    if part != 0:
        return
    for nlogs, loglen in [(1, 100), (10, 1000), (40, 1000)] + ([(200, 500)] if tier != "quick" else []):
        logs = [("INFO", "l" * loglen, {}) for _ in range(nlogs)]
        program = {
            "name": "CapSvc",
            "methods": [
                {"name": "uf", "kind": "unary", "params": [("p0", ("bytes",))], "ret": ("bytes",), "u": {"logs": logs, "act": ("raise", "ValueError", "boom")}},
                {"name": "xf", "kind": "exchange", "params": [], "header": False, "out_cols": ["b"], "in_cols": ["b"], "init": {"logs": [], "act": ("ok",)}, "steps": [{"logs": logs, "act": "raise", "exc": ("ValueError", "boom")}]},
            ],
            "calls": [],
        }
        for kind, name in (("unary", "uf"), ("exchange", "xf")):
            ref, _u, _s = _one(program, kind, name, b"x", 1, cap=None, ecap=None, coding=None, ext=None)
            if ref is None:
                chk.skip("failing_method_reference_missing")
                continue
            framed = len(ref["raw"])
            bare, _u, _s = _one({**program, "methods": [{**m, **({"u": {**m["u"], "logs": []}} if "u" in m else {"steps": [{**m["steps"][0], "logs": []}]})} for m in program["methods"]]}, kind, name, b"x", 1, cap=None, ecap=None, coding=None, ext=None)
            envelope = len(bare["raw"]) if bare is not None else 4096
            for rel, cap in (("framed", framed), ("framed-1", framed - 1), ("envelope+64", envelope + 64), ("half", max(envelope + 64, framed // 2))):
                turn, _ups, _steps = _one(program, kind, name, b"x", 1, cap=cap, ecap=None, coding=None, ext=None)
                if turn is None:
                    chk.skip("failing_method_turn_missing")
                    continue
                o = _outcome(turn)
                chk.case(f"failing_method:{kind}:logs{nlogs}x{loglen}:{rel}")
                chk.hit("failing_method_reply_judged")
                if o["kind"] != "error":
                    chk.violation(f"failing_method_not_an_error:{kind}", "a raising method was not answered with an error stream", {"kind": kind, "cap": cap, "outcome": o})
                elif o["raw"] > cap:
                    chk.violation(
                        f"error_body_exceeds_cap:method_error_with_logs:{kind}",
                        "the reply to a method that logged and then raised (log batches + EXCEPTION batch) is longer than max_response_bytes although the EXCEPTION batch alone would fit",
                        {"kind": kind, "method": name, "logs": f"{nlogs}x{loglen}", "cap": cap, "cap_rel": rel, "body": o["raw"], "error_only_body": envelope, "other_batches": o.get("other_batches")},
                    )


def run_shard(job: dict[str, Any]) -> dict[str, Any]:
    import warnings

    warnings.simplefilter("ignore")
    chk = Check(PID, job["tier"], job["seed"])
    chk.rng = random.Random(f"C16:{job['seed']}:{job['index']}")
    for fn in (_wire_scenarios, _search_scenarios, _ext_scenarios, _producer_scenarios, _failing_method_scenarios):
        try:
            fn(chk, random.Random(f"C16:{job['seed']}:{fn.__name__}"), job["tier"], job["index"], job["n"])
        except Exception as exc:  # noqa: BLE001
            import traceback

            chk.inconclusive_because(f"harness error in {fn.__name__}: {type(exc).__name__}: {exc} :: {traceback.format_exc()[-500:]}")
    return chk.to_result()


def main(tier: str, seed: int) -> int:
    chk = Check(PID, tier, seed, level=CATEGORY, rule=RULE)
    chk.require(
        "response_judged",
        "successful_response_seen",
        "successful_body_under_wire_cap_checked",
        "cap_error_seen_wire",
        "cap_error_seen_external",
        "binary_search_landed",
        "framed_size_equals_cap",
        "externalised_response_seen",
        "upload_under_external_cap_observed",
        "external_overshoot_refused_before_upload",
        "producer_turn_judged",
        "producer_wire_budget_monitor",
        "producer_upload_under_external_cap_observed",
        "producer_external_cap_error_seen",
        "failing_method_reply_judged",
    )
    chk.assumptions = [
        "framed sizes are measured on an uncapped twin app built from the same program and the same request bytes",
        "storage is an in-process recording ExternalStorage; 'bytes uploaded' = len(data) handed to upload()",
        "caps below the smallest conforming error envelope, and the exchange /init envelope, are not judged (no server could comply)",
        "with upload compression the statement does not fix whether the cap counts raw or compressed bytes: refusals are not judged there, uploads are judged on the bytes actually handed to the backend",
    ]
    n = shard.ncpu()
    jobs = [{"tier": tier, "seed": seed, "index": i, "n": n} for i in range(n)]
    for res in shard.pmap("checks.c16", "run_shard", jobs, timeout=400 if tier == "quick" else 2400):
        chk.merge(res)
    chk.exhaustive["cap relations {framed,logical}x{-1,0,+1} per size"] = True
    chk.exhaustive["payload sizes"] = False
    return chk.finish()

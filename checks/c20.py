"""C20 - authentication precedes every dispatch.

The real Falcon app (``make_wsgi_app(..., authenticate=...)``) is driven through the
raw WSGI driver with a *rejecting* authenticate callback.  Services are generated so
that their method names collide with framework endpoints (``health``, ``healthz``,
``health_check``, ``describe``, ``oauth`` ...).  For every (verb, path, body) the
monitors observe

* the server-side invocation log ``impl.inv`` (unary / init / step / cancel),
* counters on the upload-URL provider and the token-introspection resolver,
* the number of times the authenticate callback was consulted,
* the HTTP status.

Oracle (from the property statement): a request is *exempt* only when the verb is
OPTIONS, the path is under ``/.well-known/``, the path is exactly ``{prefix}/health``
or (PKCE on) the path is one of the OAuth browser-flow endpoints under
``{prefix}/_oauth/``.  For every other request no service code may run and the
request must not be served (status < 400) - neither without the callback having been
consulted nor after the callback rejected it.

Stream-exchange requests carry *valid* state tokens (minted in a set-up phase in
which the same callback returns the anonymous context) so that only authentication
stands between the request and the dispatch.
"""

from __future__ import annotations

import random
from typing import Any

from lib import shard
from lib.evidence import Check

PID = "C20"
ENGINE = "E1-svcgen-rig+E2-raw-drivers+E6-evidence"
TECHNIQUE = "invocation-log monitor under a rejecting authenticator over a verb x route x colliding-method-name grid"
LEVEL_TEXT = (
    "Exploration: the real WSGI app is driven with a rejecting authenticate callback over the full product of "
    "HTTP verbs, route suffixes, framework endpoints and generated services whose method names collide with "
    "framework endpoint names, for prefixes '', '/vgi', '/a/b', PKCE on/off, health endpoint on/off, sticky on/off; "
    "held means no request outside the statement's exemption list ran service code or was served, on the executions listed."
)
LEVEL_NOTE = (
    "invocation log of the generated implementation, provider/resolver counters and HTTP status are the only observations; "
    "Falcon routing trusted; OIDC discovery never reached (no browser GET with Accept: text/html under PKCE)"
)
CATEGORY = "exploration"
RULE = (
    "case = (config, verb, path, body); config = service variant (every colliding name as unary / producer / exchange) x "
    "prefix x PKCE x health-endpoint x sticky x rejection exception kind; paths = every method name x "
    "{'', '/', '/init', '/exchange', '/x'} + framework endpoints + random mutations; bodies are valid requests "
    "(exchange bodies carry valid anonymous state tokens); distinct class = (exempt?, verb, route class, name class, prefix class, pkce)"
)

NAMES = [
    "health",
    "healthz",
    "health_check",
    "healthx",
    "health2",
    "describe",
    "describe_all",
    "oauth",
    "init",
    "exchange",
    "well_known",
    "plain",
]
VERBS = ["GET", "POST", "PUT", "DELETE", "PATCH", "HEAD", "OPTIONS"]
PREFIXES = ["", "/vgi", "/a/b"]
REJECTIONS = ["ValueError", "AuthFailure:invalid_credential", "AuthFailure:missing_credential", "PermissionError", "ProofError"]
OAUTH_ENDPOINTS = ("callback", "logout", "token")


def _name_class(name: str | None) -> str:
    if name is None:
        return "-"
    if name == "health":
        return "health"
    if name.startswith("health"):
        return "health+suffix"
    if name.startswith("describe"):
        return "describe*"
    if name in ("oauth", "well_known", "init", "exchange"):
        return "framework-word"
    if name.startswith("_"):
        return "underscore"
    return "other"


def _program(variant: int) -> dict[str, Any]:
    """Every colliding name once; the kind rotates with *variant* so each name is seen as each kind."""
    kinds = ["unary", "producer", "exchange"]
    methods: list[dict[str, Any]] = []
    for i, name in enumerate(NAMES):
        kind = kinds[(i + variant) % 3]
        if kind == "unary":
            methods.append({"name": name, "kind": "unary", "params": [("p0", ("int",))], "ret": ("int",), "u": {"logs": [], "act": ("echo", "p0")}})
        elif kind == "producer":
            methods.append(
                {
                    "name": name,
                    "kind": "producer",
                    "params": [],
                    "header": bool(i % 2),
                    "out_cols": ["i"],
                    "init": {"logs": [], "act": ("ok",)},
                    "steps": [{"logs": [], "act": "emit", "rows": 2}, {"logs": [], "act": "emit", "rows": 2}, {"logs": [], "act": "emit", "rows": 1}, {"logs": [], "act": "finish"}],
                }
            )
        else:
            methods.append(
                {
                    "name": name,
                    "kind": "exchange",
                    "params": [],
                    "header": False,
                    "out_cols": ["i"],
                    "in_cols": ["i"],
                    "init": {"logs": [], "act": ("ok",)},
                    "steps": [{"logs": [], "act": "emit"}],
                }
            )
    return {"name": "GenSvc", "methods": methods, "calls": []}


def _is_exempt(verb: str, path: str, cfg: dict[str, Any]) -> str | None:
    """The statement's exemption predicate; returns the exemption kind or None."""
    prefix = cfg["prefix"]
    if verb == "OPTIONS":
        return "options"
    if path.startswith("/.well-known/"):
        return "well-known"
    if path == f"{prefix}/health" and cfg.get("health", True):
        # "the exact health endpoint": with the endpoint disabled there is none, and {prefix}/health is the route of a
        # method that happens to be called "health"
        return "health-exact"
    if cfg["pkce"] and path in tuple(f"{prefix}/_oauth/{e}" for e in OAUTH_ENDPOINTS):
        return "oauth-endpoint"
    return None


def _route_class(path: str, cfg: dict[str, Any], names: set[str]) -> tuple[str, str | None]:
    prefix = cfg["prefix"]
    if not path.startswith(prefix + "/") and path != prefix:
        return "outside-prefix", None
    rest = path[len(prefix) :]
    if rest in ("", "/"):
        return "landing", None
    parts = rest[1:].split("/")
    head = parts[0]
    tail = "/".join(parts[1:])
    if head in ("__describe__", "__upload_url__", "__session__", "__introspect_token__", "_oauth"):
        return f"{head}/{tail}" if tail else head, None
    suffix = {"": "unary", "init": "init", "exchange": "exchange"}.get(tail, "other-suffix")
    if len(parts) == 2 and tail == "":
        suffix = "trailing-slash"
    if head in names:
        return suffix, head
    return f"unknown-method:{suffix}", head


def run_shard(job: dict[str, Any]) -> dict[str, Any]:
    import warnings

    import pyarrow as pa

    from lib import httpdrv, svcgen
    from vgi_rpc.http import AuthFailure, AuthReason, ProofError, make_wsgi_app
    from vgi_rpc.http._common import _UPLOAD_URL_PARAMS_SCHEMA
    from vgi_rpc.metadata import CALL_STATE_KEY, STATE_KEY
    from vgi_rpc.rpc import AuthContext, RpcServer

    warnings.simplefilter("ignore")
    chk = Check(PID, job["tier"], job["seed"])
    rng = random.Random(job["seed"])
    H = {"Content-Type": httpdrv.ARROW_CT}

    for cfg in job["configs"]:
        prefix = cfg["prefix"]
        program = _program(cfg["variant"])
        proto, impl = svcgen.build(program)
        names = {m["name"] for m in program["methods"]}
        methods = {m["name"]: m for m in program["methods"]}
        counters = {"auth": 0, "upload": 0, "resolver": 0}

        class Auth:
            mode = "anon"

            def __call__(self, req: Any) -> Any:
                counters["auth"] += 1
                if self.mode == "anon":
                    return AuthContext.anonymous()
                kind = cfg["rejection"]
                if kind == "ValueError":
                    raise ValueError("rejected")
                if kind == "PermissionError":
                    raise PermissionError("rejected")
                if kind == "ProofError":
                    raise ProofError("no_proof", "proxy proof required")
                raise AuthFailure(AuthReason(kind.split(":")[1]), "rejected")

        class Provider:
            def generate_upload_url(self, schema: Any) -> Any:
                import datetime

                from vgi_rpc.external import UploadUrl

                counters["upload"] += 1
                return UploadUrl("http://127.0.0.1:9/u", "http://127.0.0.1:9/d", datetime.datetime.now(datetime.UTC))

        def resolver(token: str) -> Any:
            counters["resolver"] += 1
            return None

        auth = Auth()
        kw: dict[str, Any] = {
            "prefix": prefix,
            "authenticate": auth,
            "token_key": b"k" * 32,
            "max_response_bytes": 1,
            "upload_url_provider": Provider(),
            "enable_health_endpoint": cfg["health"],
            "enable_sticky": cfg["sticky"],
            "introspect_resolver": resolver,
            "introspect_principals": ["root"],
        }
        if cfg["pkce"]:
            from vgi_rpc.http import OAuthResourceMetadata

            kw["oauth_resource_metadata"] = OAuthResourceMetadata(
                resource=f"http://localhost{prefix}",
                authorization_servers=("http://127.0.0.1:9",),
                client_id="verif-client",
            )
        server = RpcServer(proto, impl, enable_describe=True)
        app = make_wsgi_app(server, **kw)

        # ---- set-up phase: mint valid anonymous state tokens ------------------
        tokens: dict[str, dict[bytes, bytes]] = {}
        auth.mode = "anon"
        for name, m in methods.items():
            if m["kind"] == "unary":
                continue
            r = httpdrv.call(app, "POST", f"{prefix}/{name}/init", H, httpdrv.request_body(name, pa.schema([]), None))
            if r.status != 200:
                chk.inconclusive_because(f"set-up init of {name} answered {r.status}")
                continue
            for stream in httpdrv.parse_ipc_multi(r.decoded_body()):
                for _b, md in stream:
                    if STATE_KEY.decode() in md:
                        tok = {STATE_KEY: md[STATE_KEY.decode()]}
                        if CALL_STATE_KEY.decode() in md:
                            tok[CALL_STATE_KEY] = md[CALL_STATE_KEY.decode()]
                        tokens[name] = tok
        # control: with the accepting callback the exchange bodies do dispatch
        probe_ok = 0
        for name, tok in list(tokens.items())[:2]:
            before = len(impl.inv)
            r = httpdrv.call(app, "POST", f"{prefix}/{name}/exchange", H, _exchange_body(methods[name], tok))
            if len(impl.inv) > before:
                probe_ok += 1
        if tokens and probe_ok:
            chk.hit("control_exchange_dispatches_when_accepted", probe_ok)
        before = len(impl.inv)
        r = httpdrv.call(app, "POST", f"{prefix}/__upload_url__/init", H, httpdrv.request_body("__upload_url__", _UPLOAD_URL_PARAMS_SCHEMA, {"count": 1}))
        if counters["upload"] > 0:
            chk.hit("control_upload_provider_runs_when_accepted")
        r = httpdrv.call(app, "POST", f"{prefix}/__describe__", H, httpdrv.request_body("__describe__", pa.schema([]), None))
        if r.status == 200:
            chk.hit("control_describe_served_when_accepted")

        # ---- request grid ------------------------------------------------------
        auth.mode = "reject"
        reqs: list[tuple[str, str, bytes, dict[str, str]]] = []
        path_set: list[tuple[str, bytes]] = []
        for name, m in methods.items():
            unary_body = httpdrv.request_body(name, pa.schema([pa.field("p0", pa.int64(), nullable=False)]), {"p0": 5}) if m["kind"] == "unary" else httpdrv.request_body(name, pa.schema([]), None)
            ex_body = _exchange_body(m, tokens[name]) if name in tokens else unary_body
            path_set.append((f"{prefix}/{name}", unary_body))
            path_set.append((f"{prefix}/{name}/", unary_body))
            path_set.append((f"{prefix}/{name}/init", unary_body))
            path_set.append((f"{prefix}/{name}/exchange", ex_body))
            path_set.append((f"{prefix}/{name}/x", unary_body))
        desc_body = httpdrv.request_body("__describe__", pa.schema([]), None)
        up_body = httpdrv.request_body("__upload_url__", _UPLOAD_URL_PARAMS_SCHEMA, {"count": 2})
        for p, b in [
            ("/__describe__", desc_body),
            ("/__describe__/init", desc_body),
            ("/__describe__/exchange", desc_body),
            ("/__upload_url__/init", up_body),
            ("/__upload_url__", up_body),
            ("/__session__", b""),
            ("/__introspect_token__", b'{"token":"abc"}'),
            ("/health", b""),
            ("/health/", b""),
            ("/describe", b""),
            ("", b""),
            ("/", b""),
            ("/_oauth/callback", b""),
            ("/_oauth/logout", b""),
            ("/_oauth/token", b""),
            ("/_oauth/init", desc_body),
            ("/_oauth/exchange", desc_body),
            ("/_oauth", desc_body),
            ("/_oauthx", desc_body),
            ("/nosuch", desc_body),
            ("/nosuch/init", desc_body),
        ]:
            path = prefix + p
            if path == "":
                path = "/"
            path_set.append((path, b))
        path_set.append(("/.well-known/oauth-protected-resource", b""))
        path_set.append((f"/.well-known/oauth-protected-resource{prefix}", b""))
        path_set.append(("/.well-known/x", desc_body))
        path_set.append(("/.well-knownx", desc_body))
        path_set.append(("/outside/health", desc_body))
        path_set.append(("/outside/plain", desc_body))
        if prefix:
            # the bare (un-prefixed) names and a prefix that only shares a string prefix
            path_set.append(("/health", b""))
            path_set.append(("/health_check", desc_body))
            path_set.append((prefix + "x/plain", desc_body))
        for path, body in path_set:
            for verb in VERBS:
                reqs.append((verb, path, body, H))
        # random extras: other content types / Accept headers on colliding POSTs
        extra = job.get("random_per_config", 0)
        for _ in range(extra):
            path, body = rng.choice(path_set)
            hdrs = dict(H)
            r0 = rng.random()
            if r0 < 0.3:
                hdrs["Accept"] = rng.choice(["*/*", "application/json", "application/vnd.apache.arrow.stream"])
            if r0 > 0.7:
                hdrs["Authorization"] = rng.choice(["Bearer x", "Basic eDp5", "", "Bearer "])
            if rng.random() < 0.2:
                hdrs["Cookie"] = "_vgi_auth=abc"
            if rng.random() < 0.15:
                path = path + rng.choice(["?a=1", "//", "/init/exchange", "%2Finit"]) if not path.endswith("?") else path
            verb = rng.choice(["POST", "POST", "GET", "DELETE"])
            reqs.append((verb, path, body, hdrs))

        for verb, fullpath, body, hdrs in reqs:
            path, _, query = fullpath.partition("?")
            inv0 = len(impl.inv)
            c0 = dict(counters)
            r = httpdrv.call(app, verb, path, hdrs, body if verb in ("POST", "PUT", "PATCH", "DELETE") else b"", query=query)
            ran = impl.inv[inv0:]
            d_auth = counters["auth"] - c0["auth"]
            d_up = counters["upload"] - c0["upload"]
            d_res = counters["resolver"] - c0["resolver"]
            chk.hit("requests")
            if d_auth:
                chk.hit("authenticator_consulted")
            ex = _is_exempt(verb, path, cfg)
            rclass, mname = _route_class(path, cfg, names)
            pclass = {"": "root", "/vgi": "single", "/a/b": "nested"}[prefix]
            cls = f"{'exempt:' + ex if ex else 'guarded'}|{verb}|{rclass}|{_name_class(mname)}|{pclass}|pkce={int(cfg['pkce'])}"
            wit = {
                "config": cfg,
                "verb": verb,
                "path": fullpath,
                "status": r.status,
                "authenticator_calls": d_auth,
                "invocations": [list(map(str, e[:3])) for e in ran][:4],
                "upload_provider_calls": d_up,
                "resolver_calls": d_res,
                "content_type": r.header("content-type"),
            }
            if r.exc is not None:
                chk.violation(f"app_raised:{type(r.exc).__name__}", "the WSGI app let an exception escape", wit)
                continue
            if ex is not None:
                chk.case(cls)
                chk.hit("exempt_requests")
                if ran or d_up or d_res:
                    # not excluded by the statement, recorded only
                    chk.skip("service_code_on_exempt_request_recorded_only")
                continue
            if path.startswith(f"{prefix}/_oauth/") and cfg["pkce"]:
                # under the OAuth mount but not one of the three browser-flow endpoints:
                # the statement does not say whether the whole mount is exempt
                if not (ran or d_up or d_res):
                    chk.skip("oauth_mount_non_endpoint_path_not_judged")
                    continue
            chk.case(cls)
            chk.hit("guarded_requests")
            served = r.status < 400
            if ran or d_up or d_res:
                what_ran = "upload_url_provider" if d_up else "token_resolver" if d_res else str(ran[0][0])
                if d_auth == 0:
                    key = _bypass_key(path, cfg, mname)
                    chk.violation(key, f"service code ({what_ran}) ran for a request that never reached the authenticate callback (path treated as exempt)", wit)
                else:
                    chk.violation(f"dispatch_after_rejection:{rclass}", f"service code ({what_ran}) ran although the authenticate callback rejected the request", wit)
            elif served and d_auth == 0:
                chk.violation(f"served_without_authentication:{verb}:{rclass}", "a non-exempt request was served without consulting the authenticate callback", wit)
            elif served and d_auth > 0:
                chk.violation(f"served_after_rejection:{verb}:{rclass}", "the authenticate callback rejected the request but it was served", wit)
            else:
                if d_auth > 0:
                    chk.hit("rejected_401" if r.status == 401 else "rejected_other_4xx")
                else:
                    chk.hit("refused_before_authentication")
                    chk.hit(f"refused_before_authentication:{r.status}:{'health-prefixed' if path.startswith(prefix + '/health') else 'oauth-mount' if path.startswith(prefix + '/_oauth') else 'other'}")
            if rng.random() < 0.0015:
                chk.sample({k: wit[k] for k in ("verb", "path", "status", "authenticator_calls")} | {"class": cls})
    return chk.to_result()


def _bypass_key(path: str, cfg: dict[str, Any], mname: str | None) -> str:
    prefix = cfg["prefix"]
    if path.startswith(f"{prefix}/health"):
        rest = path[len(prefix) + len("/health") :]
        if rest.startswith("/"):
            return "exempt_prefix_bypass:subroute_of_method_named_health"
        return "exempt_prefix_bypass:method_name_extending_health"
    if path.startswith(f"{prefix}/_oauth"):
        return "exempt_prefix_bypass:oauth_mount"
    if path.startswith("/.well-known"):
        return "exempt_prefix_bypass:well_known"
    return "dispatch_without_authentication:other"


def _exchange_body(m: dict[str, Any], tok: dict[bytes, bytes]) -> bytes:
    import pyarrow as pa

    from lib import httpdrv, svcgen

    if m["kind"] == "exchange":
        schema = svcgen.schema_of(m["in_cols"])
        batch = pa.RecordBatch.from_pydict({"i": [1, 2]}, schema=schema)
    else:
        schema = pa.schema([])
        batch = pa.RecordBatch.from_pydict({}, schema=schema)
    return httpdrv.ipc_bytes(batch, dict(tok))


def _run(tier: str, seed: int) -> Check:
    chk = Check(PID, tier, seed, level=CATEGORY, rule=RULE)
    chk.require(
        "requests",
        "guarded_requests",
        "exempt_requests",
        "authenticator_consulted",
        "rejected_401",
        "control_exchange_dispatches_when_accepted",
        "control_upload_provider_runs_when_accepted",
        "control_describe_served_when_accepted",
    )
    chk.assumptions = [
        "service code = generated implementation methods / stream states (impl.inv), upload-URL provider, token resolver; a 2xx/3xx answer counts as 'served'",
        "requests refused before authentication by earlier middleware (413/415/400) are not violations",
        "paths under {prefix}/_oauth/ other than callback/logout/token are not judged unless service code ran",
    ]
    rng = random.Random(seed)
    configs: list[dict[str, Any]] = []
    for variant in range(3):
        for prefix in PREFIXES:
            for pkce in (False, True):
                combos = [(True, False), (True, True), (False, False), (False, True)]
                for health, sticky in combos:
                    rejs = [REJECTIONS[(variant + len(configs)) % len(REJECTIONS)]] if tier == "quick" else REJECTIONS
                    for rej in rejs:
                        configs.append({"variant": variant, "prefix": prefix, "pkce": pkce, "health": health, "sticky": sticky, "rejection": rej})
    rng.shuffle(configs)
    jobs = [
        {"tier": tier, "seed": seed * 1000 + i, "configs": part, "random_per_config": 150 if tier == "quick" else 2500}
        for i, part in enumerate(shard.split(configs, 12 if tier == "quick" else 36))  # fixed shard count: results do not depend on the worker count
    ]
    for res in shard.pmap("checks.c20", "run_shard", jobs, timeout=600 if tier == "quick" else 2400):
        chk.merge(res)
    chk.extra["configs"] = len(configs)
    chk.exhaustive["verb x path grid per config"] = True
    chk.exhaustive["random header/path mutations"] = False
    return chk


def main(tier: str, seed: int) -> int:
    return _run(tier, seed).finish()


def replay(path: str) -> int:
    """Re-execute the run (tier, seed) recorded in a replay file; the recorded mechanism key must fire again."""
    import json

    with open(path) as fh:
        rec = json.load(fh)
    chk = _run(rec["tier"], int(rec["seed"]))
    v = chk.violations.get(rec["key"])
    if v is not None:
        print(f"VIOLATION property={PID} replay={path}")
        print(f"  key={rec['key']}: reproduced ({v['count']}x): {v['what']}")
        return 1
    print(f"INCONCLUSIVE property={PID} reason=replay of {rec['key']} did not reproduce (other keys: {sorted(chk.violations)})")
    return 2

"""C37 - OAuth browser flow redirects only to safe origins.

Two kinds of legs, all running the real code in ``vgi_rpc/http/_oauth_pkce.py``:

* **flow legs** - a real ``make_wsgi_app(authenticate=..., oauth_resource_metadata=...)``
  app is driven through the raw WSGI driver: browser GET -> 302 to the (loopback
  fake) IdP with a session cookie -> ``/_oauth/callback`` -> token exchange against
  the fake IdP over a real loopback socket -> final 302.  Also the
  already-authenticated ``_vgi_return_to`` shortcut, logout, and callbacks with
  mutated cookies / states / clock.  Every ``Location`` is resolved with the
  WHATWG origin resolver (``lib/models/whatwg_url.py``) against the request URL
  and must be same-origin under the prefix, allowlisted, or loopback.
* **validator legs** - ``_validate_return_to`` / ``_validate_original_url`` called
  directly on a much larger sample of the same URL grammar (and custom allowlists).

URLs the resolver cannot decide (IDNA, non-ASCII hosts, ``file:``) are counted as
unjudged.  A parser *failure* is safe: the browser does not navigate.
"""

from __future__ import annotations

import base64
import json
import random
import threading
import types
from typing import Any
from urllib.parse import parse_qs, quote, urlsplit

from lib import shard
from lib.evidence import Check

PID = "C37"
ENGINE = "E2-raw-drivers+E5-models"
TECHNIQUE = "real PKCE flow over raw WSGI with a loopback fake IdP; every Location judged by an independent WHATWG origin resolver; cookie/state/clock mutation at the callback"
LEVEL_TEXT = (
    "Exploration: grammar-generated _vgi_return_to values and request paths (schemes, slashes and backslashes, userinfo with "
    "@ and \\@, tab/CR/LF/space/C0 insertions, percent-encoding, IPv4 number forms, IPv6 literals, ports) were pushed through "
    "the real login flow, the already-authenticated shortcut and the two validators; each emitted Location was resolved as a "
    "browser would (WHATWG) and compared with the allowlist / loopback / same-origin-under-prefix rule. Session cookies were "
    "bit-flipped at every byte, truncated, re-keyed, aged and paired with wrong states. Held = no counterexample among the "
    "cases counted."
)
LEVEL_NOTE = (
    "the WHATWG resolver (sub-grammar only, 'unknown' otherwise) is trusted; 'loopback' is read liberally (localhost names, "
    "127/8, ::1); the IdP is a loopback fake; the redirect *to the IdP* is only required to go to the configured authorization "
    "endpoint; allowlists other than the built-in default are injected by rebinding _DEFAULT_ALLOWED_RETURN_ORIGINS / passing the "
    "validator argument"
)
CATEGORY = "exploration"
RULE = (
    "case = (leg, URL string or cookie mutation); URL = scheme x separator x [userinfo confuser @] host [: port] path x "
    "whitespace/tab insertions, biased towards near-accept shapes around localhost / 127.0.0.1 / allowlisted hosts; distinct "
    "class = (leg, generator shape labels, validator decision, resolved origin class)"
)

SVC_HOST = "svc.example"
ACCESS = "at-SECRETCANARY-0a1b2c3d"
REFRESH = "rt-SECRETCANARY-4e5f"
CLIENT_SECRET = "cs-SECRETCANARY-6071"
DEFAULT_ALLOW = ("https://cupola.query-farm.services",)
CUSTOM_ALLOW = ("https://app.example:8443", "http://intranet.test", "https://cupola.query-farm.services")

# ---------------------------------------------------------------------------
# URL grammar
# ---------------------------------------------------------------------------


def _allow_hosts(allow: tuple[str, ...]) -> list[str]:
    return [urlsplit(a).hostname or "" for a in allow]


def gen_return_to(rng: random.Random, allow: tuple[str, ...]) -> tuple[str, str]:
    """-> (url, shape label)."""
    ah = _allow_hosts(allow)
    good = ["localhost", "127.0.0.1", "LOCALHOST", "LocalHost", "[::1]", "127.1", "localhost.", "2130706433", "0x7f.0.0.1", "[0:0:0:0:0:0:0:1]", "[::ffff:127.0.0.1]"] + ah + [h.upper() for h in ah]
    evil = [
        "evil.example",
        "localhost.evil.example",
        "evil-localhost",
        "127.0.0.1.evil.example",
        "localhost@evil.example",
        ah[0] + ".evil.example",
        "evil" + ah[0],
        "evil.example.",
        "xn--e1afmkfd.example",
        "ex\xe4mple.test",
        "10.0.0.1",
        "[2001:db8::1]",
        "1.1.1.1",
        "0",
    ]
    scheme = rng.choices(["http", "https", "HTTP", "hTTps", "ftp", "ws", "javascript", "data", "file", "", "ht\ttp", "http\n", "x-app"], [30, 30, 4, 4, 2, 2, 2, 1, 1, 4, 2, 2, 1])[0]
    sep = rng.choices(["://", ":/\\", ":\\\\", ":\\/", ":/", ":", ":///", "://\t", ":////"], [70, 4, 4, 4, 4, 3, 3, 3, 3])[0]
    if scheme == "":
        sep = rng.choice(["//", "/\\", "\\\\", "\\/", "///"])
    shape = rng.choices(["plain_good", "plain_evil", "userinfo", "suffix", "port"], [14, 10, 40, 18, 18])[0]
    label = shape
    if shape == "plain_good":
        auth = rng.choice(good)
    elif shape == "plain_evil":
        auth = rng.choice(evil)
    elif shape == "userinfo":
        a_good = rng.random() < 0.5
        a = rng.choice(good if a_good else evil)
        b = rng.choice(evil if a_good else good)
        if rng.random() < 0.15:
            b = rng.choice(good + evil)
        conf = rng.choice(["", "\\", "\\\\", "/", "%5C", "#", "?", ":pw", "%40", "\\\t", ";", "\\.", ":80\\", "\\@x", "\t\\", "\\\n", "%5c%40", "\\/", "/\\"])
        auth = f"{a}{conf}@{b}"
        label = f"userinfo[{'good' if a_good else 'evil'}{_vis(conf)}@]"
    elif shape == "suffix":
        a = rng.choice(good)
        conf = rng.choice(["\\.", "\\", "%00.", "%2F", "\t.", ":80.", "#.", "?.", " .", "%20.", ".", "-", "%2e", "\\@", "/.", "%5C."])
        auth = f"{a}{conf}{rng.choice(evil)}"
        label = f"suffix[{_vis(conf)}]"
    else:
        a = rng.choice(good + evil[:2])
        port = rng.choice(["80", "443", "8080", "8443", "0", "65535", "65536", "99999", "abc", "", "08080", "8080\t", "-1", "80:80", "0x50", "8443 "])
        auth = f"{a}:{port}"
        label = f"port[{'allowhost' if a.lower() in ah else 'good' if a in good else 'evil'}:{_vis(port)}]"
    path = rng.choice(["", "/", "/cb", "/cb?x=1", "/cb#frag", "\\cb", "/..//evil.example", "/@evil.example", "/\\@evil.example", "?x=@evil.example", "#@evil.example"])
    url = f"{scheme}{sep}{auth}{path}"
    r = rng.random()
    if r < 0.08:
        url = rng.choice([" ", "\t", "\n", "\x00", "\x1f ", "  "]) + url
        label += "+lead_ws"
    elif r < 0.14:
        url = url + rng.choice([" ", "\t", "\n", "\x00"])
        label += "+trail_ws"
    elif r < 0.22:
        k = rng.randrange(len(url) + 1)
        url = url[:k] + rng.choice(["\t", "\n", "\r"]) + url[k:]
        label += "+tab_inside"
    return url, f"{_vis(scheme)}{_vis(sep)}|{label}"


def _vis(s: str) -> str:
    return s.replace("\\", "BS").replace("\t", "TAB").replace("\n", "LF").replace("\r", "CR").replace(" ", "SP").replace("\x00", "NUL")


def gen_original(rng: random.Random, prefix: str, as_request_path: bool) -> tuple[str, str]:
    """A request path (+ optional query) / original_url candidate -> (string, label)."""
    ev = rng.choice(["evil.example", "evil.example:8443", "EVIL.example", "127.0.0.1.evil.example"])
    cands = [
        (prefix + "/x", "under_prefix"),
        (prefix + "/describe", "under_prefix"),
        (prefix + "/a/b/../c", "under_prefix_dots_inside"),
        (prefix + "/", "prefix_slash"),
        ("/other/place", "outside_prefix_plain"),
        (f"/\\{ev}/x", "slash_backslash_host"),
        (f"/\\\\{ev}/x", "slash_backslash_backslash_host"),
        (f"/\\/{ev}/x", "slash_backslash_slash_host"),
        (f"//{ev}/x", "slash_slash_host"),
        (f"///{ev}/x", "triple_slash_host"),
        (f"/\t/{ev}/x", "slash_tab_slash_host"),
        (f"/\t\\{ev}/x", "slash_tab_backslash_host"),
        (f"/\n\\{ev}/x", "slash_lf_backslash_host"),
        (f"/.//{ev}/x", "dot_segment_then_slashes"),
        (f"/x/../../\\{ev}", "dots_then_backslash"),
        (f"{prefix}/\\{ev}/x", "prefix_then_backslash_host"),
        (f"{prefix}/../\\{ev}/x", "prefix_dotdot_backslash_host"),
        (f"{prefix}/../admin", "prefix_dotdot"),
        (f"{prefix}/%2e%2e/admin", "prefix_pct_dotdot"),
        (f"{prefix}/.%2E/admin", "prefix_mixed_dotdot"),
        (f"{prefix}x/y", "sibling_of_prefix"),
        (f"{prefix}/x?next=//{ev}", "under_prefix_query_host"),
        (f"/\\{ev}" + "/a" * 1100, "slash_backslash_host_long"),
    ]
    if not as_request_path:
        cands += [
            (f"\\\\{ev}/x", "backslash_backslash_host"),
            (f"\\/{ev}/x", "backslash_slash_host"),
            (f" //{ev}/x", "space_slash_slash_host"),
            (f"\t//{ev}/x", "tab_slash_slash_host"),
            (f"\x00//{ev}/x", "nul_slash_slash_host"),
            (f"https:{ev}", "scheme_no_slashes"),
            (f"https:/{ev}", "scheme_one_slash"),
            (f"https:\\\\{ev}", "scheme_backslashes"),
            (f"HtTp://{ev}/", "absolute_mixed_case"),
            (f"http:{prefix}/x", "same_scheme_relative"),
            ("javascript:alert(1)", "javascript"),
            ("", "empty"),
            (f"{prefix}/x" + "a" * 2100, "over_2048"),
            (f"ht\ttps://{ev}", "scheme_with_tab"),
        ]
    s, label = rng.choice(cands)
    return s, label


# ---------------------------------------------------------------------------
# oracle
# ---------------------------------------------------------------------------


def _allowed_origin_set(allow: tuple[str, ...]) -> set[str]:
    from lib.models import whatwg_url as wu

    out = set()
    for a in allow:
        r = wu.parse_absolute(a)
        if r.kind == "origin":
            out.add(r.origin)
    return out


def _under_prefix(path: str | None, prefix: str) -> bool | None:
    if prefix == "":
        return True
    if path is None:
        return None
    head = path[: len(prefix) + 1]
    if "%" in head:
        return None  # server-side unquoting could make this equal to the prefix: not decidable here
    return path == prefix or path.startswith(prefix + "/")


def judge_location(loc: str, base_url: str, allow: tuple[str, ...], prefix: str) -> tuple[str, str, Any]:
    """-> (verdict, detail, resolved) with verdict in safe|unsafe|outside_prefix|unknown."""
    from lib.models import whatwg_url as wu

    base = wu.parse_absolute(base_url)
    r = wu.resolve(loc, base)
    if r.kind == "unknown":
        return "unknown", r.why, r
    if r.kind == "failure":
        return "safe", "browser_refuses:" + r.why, r
    if r.kind == "nonspecial":
        return "unsafe", "nonspecial_scheme", r
    if r.origin == base.origin:
        up = _under_prefix(r.path, prefix)
        if up is None:
            return "unknown", "percent_in_prefix_region", r
        if up:
            return "safe", "same_origin_under_prefix", r
        raw = "".join(c for c in loc if c not in "\t\r\n").split("#", 1)[0].split("?", 1)[0]
        if raw == prefix or raw.startswith(prefix + "/"):
            return "outside_prefix", "dot_segments", r
        if raw.startswith(prefix):
            return "outside_prefix", "sibling_of_prefix", r
        return "outside_prefix", "other", r
    if r.origin in _allowed_origin_set(allow):
        return "safe", "allowlisted", r
    if wu.is_loopback_host(r.host):
        return "safe", "loopback", r
    # classify the mechanism from the shape of the emitted string (stable across seeds)
    ah = {h.lower() for h in _allow_hosts(allow)}
    s = "".join(c for c in loc.strip("".join(chr(i) for i in range(0x21))) if c not in "\t\r\n")
    if r.host in ah:
        mech = "port_ignored_on_allowlisted_host"
    else:
        head = s.split("#", 1)[0].split("?", 1)[0]
        pos = head.find("://")
        if pos >= 0 and "\\" in head[pos + 3 :].split("/", 1)[0]:
            mech = "backslash_ends_authority"
        elif s[:2] in ("/\\", "\\\\", "\\/"):
            mech = "backslash_as_slash_in_relative_reference"
        elif s[:3] == "///":
            mech = "extra_slashes_in_relative_reference"
        elif any(h and h in r.host for h in ah | {"localhost", "127.0.0.1"}):
            mech = "hostname_substring_of_trusted_host"
        else:
            mech = "other"
    return "unsafe", mech, r


# ---------------------------------------------------------------------------
# fake IdP on loopback
# ---------------------------------------------------------------------------


class FakeIdp:
    def __init__(self) -> None:
        import http.server

        idp = self
        self.token_requests: list[dict[str, list[str]]] = []
        self.mode = "access"

        class H(http.server.BaseHTTPRequestHandler):
            def log_message(self, *a: Any) -> None:
                pass

            def _json(self, code: int, obj: Any) -> None:
                b = json.dumps(obj).encode()
                self.send_response(code)
                self.send_header("Content-Type", "application/json")
                self.send_header("Content-Length", str(len(b)))
                self.end_headers()
                self.wfile.write(b)

            def do_GET(self) -> None:  # noqa: N802
                if self.path.endswith("/.well-known/openid-configuration"):
                    self._json(200, {"issuer": idp.base, "authorization_endpoint": idp.base + "/authorize", "token_endpoint": idp.base + "/token"})
                else:
                    self._json(404, {})

            def do_POST(self) -> None:  # noqa: N802
                n = int(self.headers.get("Content-Length") or 0)
                form = parse_qs(self.rfile.read(n).decode())
                idp.token_requests.append(form)
                payload = base64.urlsafe_b64encode(json.dumps({"sub": "u1", "email": "u@example.test", "exp": 4102444800}).encode()).rstrip(b"=").decode()
                self._json(200, {"access_token": ACCESS, "expires_in": 3600, "refresh_token": REFRESH, "id_token": f"eyJhbGciOiJub25lIn0.{payload}.sig-SECRETCANARY", "token_type": "Bearer"})

        self.httpd = http.server.ThreadingHTTPServer(("127.0.0.1", 0), H)
        self.base = f"http://127.0.0.1:{self.httpd.server_address[1]}"
        self.thread = threading.Thread(target=self.httpd.serve_forever, kwargs={"poll_interval": 0.05}, daemon=True)
        self.thread.start()

    def close(self) -> None:
        self.httpd.shutdown()
        self.httpd.server_close()


# ---------------------------------------------------------------------------
# app under test
# ---------------------------------------------------------------------------


class Flow:
    def __init__(self, idp: FakeIdp, cfg: dict[str, Any], clock: Any) -> None:
        import warnings
        from typing import Protocol

        from vgi_rpc.http import _oauth_pkce, make_wsgi_app
        from vgi_rpc.http._oauth import OAuthResourceMetadata
        from vgi_rpc.rpc import AuthContext, CallContext, RpcServer

        class PingProto(Protocol):
            def ping(self) -> str: ...

        class PingImpl:
            def ping(self, ctx: CallContext) -> str:
                return "pong"

        def authenticate(req: Any) -> Any:
            h = req.get_header("Authorization") or ""
            if h == f"Bearer {ACCESS}":
                return AuthContext(domain="harness", authenticated=True, principal="u1")
            raise ValueError("missing or bad bearer")

        self.cfg = cfg
        self.idp = idp
        self.prefix = cfg["prefix"]
        self.scheme = cfg["scheme"]
        self.allow = tuple(cfg["allow"])
        self.mod = _oauth_pkce
        meta = OAuthResourceMetadata(
            resource=f"{self.scheme}://{SVC_HOST}{self.prefix}",
            authorization_servers=(idp.base,),
            client_id="client-abc",
            client_secret=CLIENT_SECRET if cfg["secret"] else None,
            use_id_token_as_bearer=cfg["idtok"],
        )
        real_default = _oauth_pkce._DEFAULT_ALLOWED_RETURN_ORIGINS
        _oauth_pkce._DEFAULT_ALLOWED_RETURN_ORIGINS = frozenset(self.allow)
        try:
            with warnings.catch_warnings():
                warnings.simplefilter("ignore")
                self.app = make_wsgi_app(
                    RpcServer(PingProto, PingImpl()),
                    prefix=self.prefix,
                    authenticate=authenticate,
                    oauth_resource_metadata=meta,
                    token_key=bytes.fromhex(cfg["key"]),
                )
        finally:
            _oauth_pkce._DEFAULT_ALLOWED_RETURN_ORIGINS = real_default
        self.clock = clock

    def get(self, path: str, query: str = "", cookies: dict[str, str] | None = None, html: bool = True) -> Any:
        from lib import httpdrv

        hdrs: list[tuple[str, str]] = []
        if html:
            hdrs.append(("Accept", "text/html,application/xhtml+xml"))
        if cookies:
            hdrs.append(("Cookie", "; ".join(f"{k}={v}" for k, v in cookies.items())))
        return httpdrv.call(self.app, "GET", path, hdrs, b"", query=query, scheme=self.scheme, host=SVC_HOST)

    @staticmethod
    def set_cookies(resp: Any) -> dict[str, dict[str, str]]:
        out: dict[str, dict[str, str]] = {}
        for v in resp.all_headers("set-cookie"):
            parts = [p.strip() for p in v.split(";")]
            name, _, val = parts[0].partition("=")
            attrs = {"value": val}
            for p in parts[1:]:
                k, _, a = p.partition("=")
                attrs[k.lower()] = a
            out[name] = attrs
        return out


def _b64e(raw: bytes) -> str:
    return base64.urlsafe_b64encode(raw).decode("ascii")


def _b64d(s: str) -> bytes:
    return base64.urlsafe_b64decode(s + "=" * (-len(s) % 4))


def _secrets_in(text: str) -> list[str]:
    return [n for n, v in (("access_token", ACCESS), ("refresh_token", REFRESH), ("client_secret", CLIENT_SECRET), ("id_token", "sig-SECRETCANARY")) if v in text]


# ---------------------------------------------------------------------------
# legs
# ---------------------------------------------------------------------------


def _record_location(chk: Check, leg: str, loc: str, base_url: str, flow_or_allow: Any, prefix: str, shape: str, wit: dict[str, Any], expect_secret: bool) -> str:
    allow = flow_or_allow
    verdict, detail, r = judge_location(loc, base_url, allow, prefix)
    wit = {**wit, "location": loc[:300], "base": base_url[:120], "resolved": r.origin, "resolved_path": (r.path or "")[:80], "detail": detail, "secrets_in_location": _secrets_in(loc)}
    if verdict == "unknown":
        chk.skip(f"whatwg_unknown:{detail}")
        return verdict
    chk.case(f"{leg}|{shape}|{verdict}:{detail.split(':')[0]}")
    chk.hit(f"{leg}:location_judged")
    if chk.hits[f"{leg}:location_judged"] == 3:
        chk.sample({"leg": leg, "location": loc[:160], "base": base_url[:80], "resolved": r.origin, "verdict": f"{verdict}:{detail}"})
    if verdict == "unsafe":
        chk.violation(f"unsafe_redirect_origin:{detail}", "a 302 Location resolves (WHATWG) to an origin that is neither same-origin, allowlisted nor loopback", {"leg": leg, **wit})
        chk.extra[f"unsafe:{detail}:{leg}"] = chk.extra.get(f"unsafe:{detail}:{leg}", 0) + 1
    elif verdict == "outside_prefix":
        chk.violation(f"same_origin_redirect_outside_prefix:{detail}", "a same-origin 302 Location resolves to a path outside the service prefix", {"leg": leg, **wit})
        chk.extra[f"outside_prefix:{detail}:{leg}"] = chk.extra.get(f"outside_prefix:{detail}:{leg}", 0) + 1
    return verdict


def leg_login(chk: Check, fl: Flow, rng: random.Random, n: int) -> None:
    """Browser GET -> IdP redirect -> callback -> final redirect."""
    for _ in range(n):
        use_rt = rng.random() < 0.6
        path, plabel = gen_original(rng, fl.prefix, True)
        if "?" in path:
            path, _, q0 = path.partition("?")
        else:
            q0 = ""
        if len(path) > 1500 or path in (fl.prefix, fl.prefix + "/", "/") or path.startswith(fl.prefix + "/_oauth/") or path == fl.prefix + "/health":
            path, plabel = fl.prefix + "/x", "under_prefix"
        rt, rlabel = ("", "none")
        query = q0
        if use_rt:
            rt, rlabel = gen_return_to(rng, fl.allow)
            query = (q0 + "&" if q0 else "") + "_vgi_return_to=" + quote(rt, safe="")
        shape = f"path:{plabel}|rt:{rlabel}"
        wit = {"config": fl.cfg, "path": path[:200], "query": query[:300], "return_to": rt}
        r1 = fl.get(path, query)
        if r1.status != 302:
            chk.skip(f"login_start_not_302:{r1.status}")
            continue
        loc1 = r1.header("location") or ""
        chk.hit("login:idp_redirect_seen")
        chk.case(f"login_start|{shape}")
        if not loc1.startswith(fl.idp.base + "/authorize?"):
            chk.violation("authorization_redirect_not_to_configured_idp", "the login redirect does not target the configured authorization endpoint", {**wit, "location": loc1[:300]})
            continue
        q = parse_qs(urlsplit(loc1).query)
        want_cb = f"{fl.scheme}://{SVC_HOST}{fl.prefix}/_oauth/callback"
        if q.get("redirect_uri") != [want_cb]:
            chk.violation("authorization_redirect_uri_not_service_callback", "redirect_uri sent to the IdP is not the service's own callback", {**wit, "redirect_uri": q.get("redirect_uri")})
            continue
        sc = fl.set_cookies(r1).get("_vgi_oauth_session")
        if not sc:
            chk.inconclusive_because("IdP redirect without a session cookie")
            continue
        state = q["state"][0]
        cbq = f"code=authcode-1&state={quote(state, safe='')}"
        ntok = len(fl.idp.token_requests)
        r2 = fl.get(fl.prefix + "/_oauth/callback", cbq, {"_vgi_oauth_session": sc["value"]})
        if r2.status != 302:
            chk.violation(f"valid_callback_did_not_complete:{r2.status}", "an untampered, unexpired cookie with the matching state did not complete the callback", {**wit, "body": r2.body[:200]})
            continue
        chk.hit("login:valid_callback_completed")
        if len(fl.idp.token_requests) != ntok + 1:
            chk.inconclusive_because("callback completed without exactly one token request at the fake IdP")
        loc2 = r2.header("location") or ""
        base_url = f"{fl.scheme}://{SVC_HOST}{fl.prefix}/_oauth/callback?{cbq}"
        has_secret = bool(_secrets_in(loc2))
        leg = "login_return_to" if has_secret else "login_same_origin"
        chk.hit(f"{leg}:seen")
        _record_location(chk, leg, loc2, base_url, fl.allow, fl.prefix, shape, wit, has_secret)


def leg_already_authenticated(chk: Check, fl: Flow, rng: random.Random, n: int) -> None:
    for _ in range(n):
        rt, rlabel = gen_return_to(rng, fl.allow)
        path = rng.choice([fl.prefix + "/x", fl.prefix or "/", fl.prefix + "/describe"])
        query = "_vgi_return_to=" + quote(rt, safe="")
        r = fl.get(path, query, {"_vgi_auth": ACCESS})
        wit = {"config": fl.cfg, "path": path, "return_to": rt, "status": r.status}
        if r.status >= 500 or r.exc is not None:
            chk.skip(f"shortcut_5xx:{type(r.exc).__name__ if r.exc else r.status}")
            chk.extra["shortcut_5xx"] = chk.extra.get("shortcut_5xx", 0) + 1
            if chk.extra["shortcut_5xx"] == 1:
                chk.sample({"shortcut_5xx": wit, "exc": repr(r.exc)[:200], "body": r.body[:80]})
            continue
        if r.status != 302:
            chk.case(f"shortcut|rt:{rlabel}|not_redirected")
            chk.hit("shortcut:rejected")
            continue
        loc = r.header("location") or ""
        chk.hit("shortcut:redirected")
        _record_location(chk, "shortcut", loc, f"{fl.scheme}://{SVC_HOST}/", fl.allow, fl.prefix, f"rt:{rlabel}", wit, True)


def leg_logout(chk: Check, fl: Flow) -> None:
    r = fl.get(fl.prefix + "/_oauth/logout", "", {"_vgi_auth": ACCESS})
    if r.status not in (302, 303, 307):
        chk.skip(f"logout_not_redirect:{r.status}")
        return
    chk.hit("logout:redirected")
    _record_location(chk, "logout", r.header("location") or "", f"{fl.scheme}://{SVC_HOST}{fl.prefix}/_oauth/logout", fl.allow, fl.prefix, "logout", {"config": fl.cfg}, False)


def _start_login(fl: Flow, rt: str = "") -> tuple[str, str, int] | None:
    query = ("_vgi_return_to=" + quote(rt, safe="")) if rt else ""
    r1 = fl.get(fl.prefix + "/x", query)
    if r1.status != 302:
        return None
    q = parse_qs(urlsplit(r1.header("location") or "").query)
    sc = fl.set_cookies(r1).get("_vgi_oauth_session")
    if not sc or "state" not in q:
        return None
    return sc["value"], q["state"][0], int(sc.get("max-age", "0") or 0)


def _completed(fl: Flow, resp: Any, ntok_before: int) -> list[str]:
    """Evidence that the callback completed."""
    ev = []
    if resp.status in (301, 302, 303, 307, 308):
        ev.append(f"status_{resp.status}")
    text = resp.body.decode("latin-1") + "\n".join(f"{k}: {v}" for k, v in resp.headers)
    if _secrets_in(text):
        ev.append("token_in_response")
    if "_vgi_auth" in Flow.set_cookies(resp) and Flow.set_cookies(resp)["_vgi_auth"].get("value"):
        ev.append("auth_cookie_set")
    if len(fl.idp.token_requests) != ntok_before:
        ev.append("token_endpoint_called")
    return ev


def leg_cookie(chk: Check, fl: Flow, other: Flow, rng: random.Random, exhaustive_bits: bool) -> None:
    """Callbacks with mutated cookies / states / clock must not complete."""
    for rt in ("", "http://localhost:3000/cb"):
        started = _start_login(fl, rt)
        if started is None:
            chk.inconclusive_because("could not start a login for the cookie leg")
            return
        cookie, state, max_age = started
        raw = _b64d(cookie)
        t0 = fl.clock.now

        def attempt(label: str, cookie_val: str | None, state_val: str | None, expect_complete: bool, dt: int = 0, judge: bool = True) -> None:
            fl.clock.now = t0 + dt
            parts = ["code=authcode-2"]
            if state_val is not None:
                parts.append("state=" + quote(state_val, safe=""))
            ntok = len(fl.idp.token_requests)
            resp = fl.get(fl.prefix + "/_oauth/callback", "&".join(parts), {"_vgi_oauth_session": cookie_val} if cookie_val is not None else None)
            fl.clock.now = t0
            ev = _completed(fl, resp, ntok)
            wit = {"config": fl.cfg, "mutation": label, "status": resp.status, "evidence": ev, "return_to": rt, "dt": dt, "exc": repr(resp.exc)[:160] if resp.exc else None}
            if not judge:
                chk.skip(f"cookie_case_not_fixed_by_statement:{label}")
                return
            chk.case(f"cookie|{label.split('@')[0]}|rt={'y' if rt else 'n'}")
            if expect_complete:
                chk.hit("cookie:valid_control_completed")
                if "status_302" not in ev:
                    chk.violation(f"valid_callback_did_not_complete:{resp.status}", "control callback (untampered cookie, matching state, unexpired) did not complete", wit)
                return
            chk.hit("cookie:mutant_judged")
            if resp.status >= 500 or resp.exc is not None:
                chk.extra["callback_5xx"] = chk.extra.get("callback_5xx", 0) + 1
                chk.hit("cookie:mutant_5xx_not_completed")
            if ev:
                base = label.split("@")[0]
                cat = (
                    "expired"
                    if base.startswith("age_")
                    else "state_mismatch"
                    if base.startswith("state_")
                    else "foreign_key"
                    if base.startswith("foreign_key")
                    else "missing"
                    if base in ("cookie_missing", "cookie_empty")
                    else "tampered"
                )
                chk.violation(f"callback_completed_with_bad_cookie:{cat}", "the callback completed although the cookie was tampered / expired / foreign or the state did not match", wit)

        # controls first (each consumes nothing server-side: the cookie is stateless)
        attempt("control", cookie, state, True)
        attempt("control_age_1s_before_max_age", cookie, state, True, dt=max(0, max_age - 1))
        # ages
        attempt("age_eq_max_age", cookie, state, False, dt=max_age, judge=False)
        attempt("age_max_age_plus_1", cookie, state, False, dt=max_age + 1)
        attempt("age_10x", cookie, state, False, dt=10 * max_age + 7)
        attempt("clock_before_mint", cookie, state, False, dt=-5, judge=False)
        # state
        for label, sv in [
            ("state_last_char", state[:-1] + ("A" if state[-1] != "A" else "B")),
            ("state_empty", ""),
            ("state_missing", None),
            ("state_prefix", state[:-1]),
            ("state_extended", state + "A"),
            ("state_swapcase", state.swapcase()),
            ("state_other_login", (_start_login(fl, rt) or ("", "zzz", 0))[1]),
            ("state_non_ascii", state[:-1] + "\xe9"),
            ("state_nul", state + "\x00"),
        ]:
            if sv == state:
                continue
            attempt(label, cookie, sv, False)
        # cookie bytes
        positions = range(len(raw)) if exhaustive_bits else sorted(rng.sample(range(len(raw)), min(len(raw), 24)))
        for pos in positions:
            bit = 1 << rng.randrange(8)
            mutated = raw[:pos] + bytes([raw[pos] ^ bit]) + raw[pos + 1 :]
            region = "mac" if pos >= len(raw) - 32 else "version" if pos == 0 else "created_at" if pos < 9 else "payload"
            attempt(f"bitflip_{region}@{pos}", _b64e(mutated), state, False)
        for label, mutated in [
            ("truncate_1", raw[:-1]),
            ("truncate_mac", raw[:-32]),
            ("truncate_half", raw[: len(raw) // 2]),
            ("extend_zero", raw + b"\x00"),
            ("mac_zeroed", raw[:-32] + b"\x00" * 32),
            ("payload_only_remac_wrong_key", raw[:-32] + __import__("hmac").new(b"k" * 32, raw[:-32], "sha256").digest()),
            ("empty_bytes", b""),
            ("short_48", raw[:48]),
        ]:
            attempt(label, _b64e(mutated), state, False)
        for label, cv in [("cookie_missing", None), ("cookie_empty", ""), ("cookie_garbage", "!!!not-base64!!!"), ("cookie_state_only", state)]:
            attempt(label, cv, state, False)
        # a cookie minted by another worker with a different token_key (same state cannot be known: use its own state)
        o = _start_login(other, rt)
        if o is not None:
            attempt("foreign_key_cookie_own_state", o[0], o[1], False)
        # timestamp rewritten to "now" without re-signing
        import struct

        newer = raw[:1] + struct.pack("<Q", t0 + 5 * max_age) + raw[9:]
        attempt("created_at_rewritten_unsigned", _b64e(newer), state, False, dt=5 * max_age)
        # non-canonical base64 spelling of the same bytes: payload untampered -> not judged
        attempt("b64_junk_appended_same_bytes", cookie + "!", state, True, judge=False)


def leg_validators(chk: Check, rng: random.Random, n: int) -> None:
    from vgi_rpc.http import _oauth_pkce as m

    base_cb = "https://svc.example{p}/_oauth/callback?code=x"
    for _ in range(n):
        allow = rng.choice([DEFAULT_ALLOW, CUSTOM_ALLOW, ()])
        url, label = gen_return_to(rng, allow or DEFAULT_ALLOW)
        wit = {"validator": "_validate_return_to", "input": url, "allow": list(allow)}
        try:
            ret = m._validate_return_to(url, frozenset(allow))
        except Exception as exc:  # noqa: BLE001
            chk.skip(f"validate_return_to_raised:{type(exc).__name__}")
            if chk.extra.get("validator_raised", 0) == 0:
                chk.sample({"validator_raised": wit, "exc": repr(exc)[:200]})
            chk.extra["validator_raised"] = chk.extra.get("validator_raised", 0) + 1
            continue
        if ret == "":
            chk.case(f"v_return_to|{label}|rejected")
            chk.hit("v_return_to:rejected")
        else:
            chk.hit("v_return_to:accepted")
            loc = ret + ("#" if "#" not in ret else "&") + "token=" + ACCESS
            _record_location(chk, "validate_return_to", loc, "https://svc.example/", allow, "", f"rt:{label}", wit, True)
    for _ in range(n):
        prefix = rng.choice(["", "", "/vgi", "/api/v1"])
        url, label = gen_original(rng, prefix, False)
        if rng.random() < 0.3:
            url = url + rng.choice(["?a=1", "?next=https://evil.example", "#frag"])
        wit = {"validator": "_validate_original_url", "input": url[:300], "prefix": prefix}
        try:
            ret = m._validate_original_url(url, prefix)
        except Exception as exc:  # noqa: BLE001
            chk.violation(f"validate_original_url_raised:{type(exc).__name__}", "validator raised", {**wit, "exc": repr(exc)[:200]})
            continue
        chk.hit("v_original:returned")
        _record_location(chk, "validate_original_url", ret, base_cb.format(p=prefix), (), prefix, f"orig:{label}|{'kept' if ret == url else 'replaced'}", wit, False)


# ---------------------------------------------------------------------------
# shards / main
# ---------------------------------------------------------------------------


class _Clock:
    def __init__(self) -> None:
        self.now = 1_800_000_000

    def time(self) -> float:
        return float(self.now)


_FLOW_CONFIGS = [
    {"prefix": "", "scheme": "https", "allow": list(DEFAULT_ALLOW), "secret": True, "idtok": False, "key": "11" * 32},
    {"prefix": "/vgi", "scheme": "https", "allow": list(CUSTOM_ALLOW), "secret": True, "idtok": False, "key": "22" * 32},
    {"prefix": "", "scheme": "http", "allow": list(CUSTOM_ALLOW), "secret": False, "idtok": True, "key": "33" * 32},
    {"prefix": "/api/v1", "scheme": "http", "allow": list(DEFAULT_ALLOW), "secret": True, "idtok": True, "key": "44" * 32},
]


def run_shard(job: dict[str, Any]) -> dict[str, Any]:
    chk = Check(PID, job["tier"], job["seed"])
    rng = random.Random(job["seed"])
    if job["kind"] == "validators":
        leg_validators(chk, rng, job["n"])
        return chk.to_result()
    from vgi_rpc.http import _oauth_pkce

    clock = _Clock()
    real_time = _oauth_pkce.time
    _oauth_pkce.time = types.SimpleNamespace(time=clock.time)  # type: ignore[assignment]
    idp = FakeIdp()
    try:
        cfg = _FLOW_CONFIGS[job["config"]]
        fl = Flow(idp, cfg, clock)
        other = Flow(idp, {**cfg, "key": "ee" * 32}, clock)
        leg_logout(chk, fl)
        leg_cookie(chk, fl, other, rng, exhaustive_bits=job["bits"])
        leg_login(chk, fl, rng, job["logins"])
        leg_already_authenticated(chk, fl, rng, job["shortcuts"])
        chk.extra["idp_token_requests"] = len(idp.token_requests)
    finally:
        idp.close()
        _oauth_pkce.time = real_time
    return chk.to_result()


def main(tier: str, seed: int) -> int:
    chk = Check(PID, tier, seed, level=CATEGORY, rule=RULE)
    chk.require(
        "login:idp_redirect_seen",
        "login:valid_callback_completed",
        "login_return_to:seen",
        "login_same_origin:seen",
        "login_return_to:location_judged",
        "login_same_origin:location_judged",
        "shortcut:redirected",
        "shortcut:rejected",
        "shortcut:location_judged",
        "logout:redirected",
        "cookie:valid_control_completed",
        "cookie:mutant_judged",
        "v_return_to:accepted",
        "v_return_to:rejected",
        "validate_return_to:location_judged",
        "v_original:returned",
        "validate_original_url:location_judged",
    )
    chk.assumptions = [
        "lib/models/whatwg_url.py is a faithful reading of the WHATWG URL standard on its sub-grammar; inputs outside it are unjudged",
        "a URL on which the WHATWG parser fails is safe (no navigation)",
        "loopback = localhost / *.localhost / 127.0.0.0/8 / ::1 on any port (liberal reading)",
        "IdP stubbed by a loopback HTTP server; httpx2 performs the real discovery and token POST",
        "module-level `time` of _oauth_pkce rebound to a virtual clock for cookie ages; cookie lifetime taken from the Set-Cookie Max-Age the flow itself advertises",
        "exactly-at-Max-Age, cookie-from-the-future and non-canonical base64 spellings of an untampered cookie are not fixed by the statement (unjudged)",
    ]
    quick = tier == "quick"
    jobs: list[dict[str, Any]] = []
    for ci in range(len(_FLOW_CONFIGS)):
        reps = 1 if quick else 6
        for r in range(reps):
            jobs.append({"tier": tier, "seed": seed * 10007 + ci * 31 + r, "kind": "flow", "config": ci, "logins": 250 if quick else 1500, "shortcuts": 500 if quick else 4000, "bits": True})
    nval = 6 if quick else 40
    for i in range(nval):
        jobs.append({"tier": tier, "seed": seed * 10007 + 5000 + i, "kind": "validators", "n": 4000 if quick else 25_000})
    for res in shard.pmap("checks.c37", "run_shard", jobs, timeout=300 if quick else 1500):
        chk.merge(res)
    chk.exhaustive["session_cookie_single_bit_flip_per_byte_position"] = True
    chk.exhaustive["url_grammar"] = False
    return chk.finish()


def replay(path: str) -> int:
    """Re-run the single case of a replay file's first witness (validator call, login, shortcut, or the cookie leg)."""
    with open(path) as fh:
        rp = json.load(fh)
    wit = rp["witnesses"][0]
    chk = Check(PID, rp["tier"], rp["seed"], level=CATEGORY, rule=RULE)
    leg = wit.get("leg", "cookie" if "mutation" in wit else "")
    if leg.startswith("validate_"):
        from vgi_rpc.http import _oauth_pkce as m

        if leg == "validate_return_to":
            ret = m._validate_return_to(wit["input"], frozenset(wit["allow"]))
            if ret:
                loc = ret + ("#" if "#" not in ret else "&") + "token=" + ACCESS
                _record_location(chk, leg, loc, "https://svc.example/", tuple(wit["allow"]), "", "replay", wit, True)
        else:
            ret = m._validate_original_url(wit["input"], wit["prefix"])
            _record_location(chk, leg, ret, f"https://svc.example{wit['prefix']}/_oauth/callback?code=x", (), wit["prefix"], "replay", wit, False)
    else:
        from vgi_rpc.http import _oauth_pkce

        clock = _Clock()
        real_time = _oauth_pkce.time
        _oauth_pkce.time = types.SimpleNamespace(time=clock.time)  # type: ignore[assignment]
        idp = FakeIdp()
        try:
            cfg = wit["config"]
            fl = Flow(idp, cfg, clock)
            if leg == "shortcut":
                r = fl.get(wit["path"], "_vgi_return_to=" + quote(wit["return_to"], safe=""), {"_vgi_auth": ACCESS})
                if r.status == 302:
                    _record_location(chk, leg, r.header("location") or "", f"{fl.scheme}://{SVC_HOST}/", fl.allow, fl.prefix, "replay", wit, True)
            elif leg.startswith("login"):
                r1 = fl.get(wit["path"], wit["query"])
                sc = fl.set_cookies(r1).get("_vgi_oauth_session")
                q = parse_qs(urlsplit(r1.header("location") or "").query)
                if r1.status == 302 and sc and "state" in q:
                    cbq = f"code=authcode-1&state={quote(q['state'][0], safe='')}"
                    r2 = fl.get(fl.prefix + "/_oauth/callback", cbq, {"_vgi_oauth_session": sc["value"]})
                    if r2.status == 302:
                        _record_location(chk, leg, r2.header("location") or "", f"{fl.scheme}://{SVC_HOST}{fl.prefix}/_oauth/callback?{cbq}", fl.allow, fl.prefix, "replay", wit, True)
            elif leg == "logout":
                leg_logout(chk, fl)
            else:
                leg_cookie(chk, fl, Flow(idp, {**cfg, "key": "ee" * 32}, clock), random.Random(rp["seed"]), exhaustive_bits=True)
        finally:
            idp.close()
            _oauth_pkce.time = real_time
    if rp["key"] not in chk.violations:
        chk.violations.clear()
        chk.inconclusive_because(f"replay did not reproduce {rp['key']}")
    else:
        for k in [k for k in chk.violations if k != rp["key"]]:
            del chk.violations[k]
    return chk.finish()

"""C19 - response content-encoding negotiation.

Every (X-VGI-Accept-Encoding, Accept-Encoding) pair drawn from ordered token
lists is sent, for every server encode set, to five response kinds of a small
svcgen service through the raw WSGI driver: unary result, unary protocol error
(Arrow 404 body), producer init (middleware compression path, with and without
a header stream), producer continuation (the pre-compressed
``_current_response_codec`` path) and an exchange turn.  The chosen coding and
the announcing header are compared with ``lib.models.negotiation`` (written from
the spec); the decoded body is compared, batch by batch, with the body the same
request gets when it offers nothing.
"""

from __future__ import annotations

import itertools
import os
import random
from typing import Any

from lib import shard
from lib.evidence import Check

PID = "C19"
ENGINE = "E1-svcgen-rig+E2-raw-drivers+E5-models"
TECHNIQUE = "request-space map: observed response coding / announcing header / decoded body vs. spec preference model"
LEVEL_TEXT = (
    "Exploration: ordered offer lists (length <= 4 over zstd, gzip, identity, unknown, wildcard, case, q-parameter and "
    "duplicate tokens) for both request headers are sent for each server encode set ({zstd,gzip}, {gzip}, {}) to unary, "
    "protocol-error, producer-init, producer-continuation (pre-compressed path) and exchange responses of the real WSGI "
    "app; coding, announcing header and decoded body are compared with a model written from the spec. Pairs of lists "
    "up to length 2 are exhaustive in the thorough tier. A history leg sends every request kind offer-less right after every kind that negotiated a coding. Held means no mismatch among the responses counted."
)
LEVEL_NOTE = (
    "q-value reordering, the wildcard and the announcing header of a coding offered in both headers are not judged "
    "(spec silent / ambiguous); zstandard/zlib decoders trusted; encode set {zstd} alone is not reachable through make_wsgi_app"
)
CATEGORY = "exploration"
RULE = (
    "case = (server encode set, response kind, X-VGI-Accept-Encoding list, Accept-Encoding list); distinct class = "
    "(response kind, encode set, expected outcome and reason, announcing header, shape of both lists: one/many, first "
    "token kind, identity / unknown / wildcard / q flags)"
)

TOKENS = ["zstd", "gzip", "identity", "br", "*", "ZSTD", "gzip;q=0.5", "zstd;q=0", " Identity ", "deflate"]
REDUCED = ["zstd", "gzip", "identity", "br", "GZip", "zstd;q=0.9"]

SERVER_SETS: dict[str, tuple[str, ...]] = {"zstd+gzip": ("zstd", "gzip"), "gzip": ("gzip",), "none": ()}

STATE_KEY = "vgi_rpc.stream_state#b64"
CALL_KEY = "vgi_rpc.call_state#b64"

PROGRAM: dict[str, Any] = {
    "name": "NegSvc",
    "methods": [
        {"name": "echo", "kind": "unary", "params": [("s", ("str",))], "ret": ("str",), "u": {"logs": [("INFO", "hello", {"k": "v"})], "act": ("echo", "s")}},
        {
            "name": "prod",
            "kind": "producer",
            "params": [("n", ("int",))],
            "header": False,
            "out_cols": ["i", "s"],
            "init": {"logs": [], "act": ("ok",)},
            "steps": [
                {"logs": [], "act": "emit", "rows": 5, "pad": 400},
                {"logs": [("INFO", "second", {})], "act": "emit", "rows": 5, "pad": 400, "meta": {"k": "v"}},
                {"logs": [], "act": "emit", "rows": 3, "pad": 50},
                {"logs": [], "act": "finish"},
            ],
        },
        {
            "name": "prodh",
            "kind": "producer",
            "params": [],
            "header": True,
            "out_cols": ["i"],
            "init": {"logs": [], "act": ("ok",)},
            "steps": [{"logs": [], "act": "emit", "rows": 50}, {"logs": [], "act": "emit_finish", "rows": 2}],
        },
        {
            "name": "exch",
            "kind": "exchange",
            "params": [],
            "header": False,
            "out_cols": ["i", "s"],
            "in_cols": ["i", "s"],
            "init": {"logs": [], "act": ("ok",)},
            "steps": [{"logs": [], "act": "emit"}],
        },
    ],
    "calls": [],
}


def list_value(tokens: tuple[str, ...] | list[str]) -> str | None:
    """Header value for an offer list; the empty list means 'header absent'."""
    if not tokens:
        return None
    return ", ".join(tokens)


def shape(tokens: tuple[str, ...] | list[str]) -> str:
    """Coarse shape of an offer list: first token category + which special token kinds occur."""
    if not tokens:
        return "absent"
    low = [t.strip().lower().split(";")[0] for t in tokens]
    flags = []
    if "identity" in low:
        flags.append("I")
    if any(t in ("br", "deflate") for t in low):
        flags.append("U")
    if "*" in low:
        flags.append("W")
    if any(";" in t for t in tokens):
        flags.append("Q")
    first = low[0] if low[0] in ("zstd", "gzip", "identity", "*") else "unk"
    return f"{'one' if len(tokens) == 1 else 'many'}:{first}:{''.join(flags)}"


def all_lists(alphabet: list[str], maxlen: int) -> list[tuple[str, ...]]:
    out: list[tuple[str, ...]] = []
    for n in range(0, maxlen + 1):
        out.extend(itertools.product(alphabet, repeat=n))
    return out


def gen_pairs(tier: str, rng: random.Random) -> list[tuple[tuple[str, ...], tuple[str, ...]]]:
    pairs: list[tuple[tuple[str, ...], tuple[str, ...]]] = []
    l2 = all_lists(TOKENS, 2)
    l1 = all_lists(TOKENS, 1)
    if tier == "quick":
        for a in l2:
            for b in l1:
                pairs.append((a, b))
                pairs.append((b, a))
        nrand = 2200
    else:
        for a in l2:
            for b in l2:
                pairs.append((a, b))
        l4 = all_lists(REDUCED, 4)
        for a in l4:
            for b in l1:
                pairs.append((a, b))
                pairs.append((b, a))
        nrand = 25_000
    for _ in range(nrand):
        a = tuple(rng.choice(TOKENS) for _ in range(rng.choice([0, 1, 2, 3, 3, 4, 4])))
        b = tuple(rng.choice(TOKENS) for _ in range(rng.choice([0, 1, 2, 3, 3, 4, 4])))
        pairs.append((a, b))
    # de-duplicate, keep order
    seen: set[tuple[tuple[str, ...], tuple[str, ...]]] = set()
    out = []
    for p in pairs:
        if p not in seen:
            seen.add(p)
            out.append(p)
    return out


# ---------------------------------------------------------------------------
# app + requests
# ---------------------------------------------------------------------------


def build_app(server_set: str) -> tuple[Any, Any, Any]:
    import warnings

    from lib import svcgen
    from vgi_rpc.http import make_wsgi_app
    from vgi_rpc.rpc import RpcServer

    proto, impl = svcgen.build(PROGRAM)
    server = RpcServer(proto, impl)
    old = os.environ.get("VGI_HTTP_DISABLE_ZSTD")
    try:
        if server_set == "gzip":
            os.environ["VGI_HTTP_DISABLE_ZSTD"] = "1"
        else:
            os.environ.pop("VGI_HTTP_DISABLE_ZSTD", None)
        with warnings.catch_warnings():
            warnings.simplefilter("ignore")
            app = make_wsgi_app(server, token_key=b"k" * 32, compression_level=None if server_set == "none" else 1)
    finally:
        if old is None:
            os.environ.pop("VGI_HTTP_DISABLE_ZSTD", None)
        else:
            os.environ["VGI_HTTP_DISABLE_ZSTD"] = old
    return app, server, impl


def tokens_of(resp: Any) -> dict[bytes, bytes]:
    from lib import httpdrv

    md_out: dict[bytes, bytes] = {}
    for st in httpdrv.parse_ipc_multi(resp.decoded_body()):
        for _b, md in st:
            if STATE_KEY in md:
                md_out[STATE_KEY.encode()] = md[STATE_KEY]
            if CALL_KEY in md:
                md_out[CALL_KEY.encode()] = md[CALL_KEY]
    return md_out


def make_requests(app: Any, server: Any) -> dict[str, tuple[str, bytes]]:
    """route kind -> (path, body); stream tokens are obtained with offer-less init calls."""
    import pyarrow as pa

    from lib import httpdrv, svcgen

    m = server.methods
    base = {"Content-Type": httpdrv.ARROW_CT, "X-Request-ID": "rid-fixed"}
    reqs: dict[str, tuple[str, bytes]] = {}
    echo = httpdrv.request_body("echo", m["echo"].params_schema, {"s": "lorem ipsum dolor " * 200})
    reqs["unary"] = ("/echo", echo)
    reqs["unary_error"] = ("/nosuch", echo)
    reqs["producer_init"] = ("/prod/init", httpdrv.request_body("prod", m["prod"].params_schema, {"n": 3}))
    reqs["producer_init_hdr"] = ("/prodh/init", httpdrv.request_body("prodh", m["prodh"].params_schema, {}))
    r = httpdrv.call(app, "POST", "/prod/init", base, reqs["producer_init"][1])
    tk = tokens_of(r)
    if STATE_KEY.encode() in tk:
        reqs["producer_cont"] = ("/prod/exchange", httpdrv.ipc_bytes(pa.RecordBatch.from_pydict({}, schema=pa.schema([])), tk))
    r = httpdrv.call(app, "POST", "/exch/init", base, httpdrv.request_body("exch", m["exch"].params_schema, {}))
    tk = tokens_of(r)
    if STATE_KEY.encode() in tk:
        sch = svcgen.schema_of(["i", "s"])
        batch = pa.RecordBatch.from_pydict({"i": list(range(40)), "s": ["value-%d" % k for k in range(40)]}, schema=sch)
        reqs["exchange"] = ("/exch/exchange", httpdrv.ipc_bytes(batch, tk))
    return reqs


def normalise(decoded: bytes) -> list[Any]:
    """Decoded body -> comparable structure; raises when it is not Arrow IPC."""
    from lib import httpdrv

    out: list[Any] = []
    for st in httpdrv.parse_ipc_multi(decoded):
        cur = []
        for b, md in st:
            cur.append((str(b.schema), b.num_rows, b.to_pydict(), {k: v for k, v in md.items()}))
        out.append(cur)
    return out


def volatile_keys(a: list[Any], b: list[Any]) -> set[str]:
    """Metadata keys whose values differ between two identical offer-less requests (fresh tokens, timings)."""
    vol: set[str] = set()
    for sa, sb in zip(a, b, strict=False):
        for ba, bb in zip(sa, sb, strict=False):
            for k in set(ba[3]) | set(bb[3]):
                if ba[3].get(k) != bb[3].get(k):
                    vol.add(k)
    return vol


def strip(norm: list[Any], vol: set[str]) -> list[Any]:
    return [[(s, n, d, {k: (v if k not in vol else "<volatile>") for k, v in md.items()}) for s, n, d, md in st] for st in norm]


def run_shard(job: dict[str, Any]) -> dict[str, Any]:
    from lib import httpdrv
    from lib.models import negotiation as neg

    chk = Check(PID, job["tier"], job["seed"])
    pairs = [(tuple(a), tuple(b)) for a, b in job["pairs"]]
    for sname in job["server_sets"]:
        producible = SERVER_SETS[sname]
        app, server, impl = build_app(sname)
        reqs = make_requests(app, server)
        for need in ("producer_cont", "exchange"):
            if need not in reqs:
                chk.inconclusive_because(f"could not obtain stream tokens for {need}")
        base = {"Content-Type": httpdrv.ARROW_CT, "X-Request-ID": "rid-fixed"}
        # offer-less references (twice, to learn which metadata values are volatile)
        ref: dict[str, tuple[int, list[Any], set[str]]] = {}
        for kind, (path, body) in reqs.items():
            r1 = httpdrv.call(app, "POST", path, base, body)
            r2 = httpdrv.call(app, "POST", path, base, body)
            if r1.header("content-encoding") or r1.header("x-vgi-content-encoding"):
                chk.violation(
                    f"coded_without_offer:{kind}",
                    "a request offering no coding got an encoded response",
                    {"server_set": sname, "kind": kind},
                )
                continue
            try:
                n1, n2 = normalise(r1.body), normalise(r2.body)
            except Exception as exc:  # noqa: BLE001
                chk.inconclusive_because(f"reference body for {kind} not parseable: {type(exc).__name__}")
                continue
            vol = volatile_keys(n1, n2)
            ref[kind] = (r1.status, strip(n1, vol), vol)
        for vgi, std in pairs:
            hv, hs = list_value(vgi), list_value(std)
            exp = neg.negotiate(hv, hs, producible)
            for kind, (path, body) in reqs.items():
                if kind not in ref:
                    continue
                headers = dict(base)
                if hv is not None:
                    headers["X-VGI-Accept-Encoding"] = hv
                if hs is not None:
                    headers["Accept-Encoding"] = hs
                r = httpdrv.call(app, "POST", path, headers, body)
                wit = {"server_set": sname, "kind": kind, "x_vgi_accept_encoding": hv, "accept_encoding": hs, "status": r.status}
                if r.exc is not None:
                    chk.violation(f"wsgi_app_raised:{kind}:{type(r.exc).__name__}", "the WSGI callable raised", {**wit, "exc": repr(r.exc)})
                    continue
                ce = r.all_headers("content-encoding")
                xce = r.all_headers("x-vgi-content-encoding")
                announced = [("Content-Encoding", v.strip().lower()) for v in ce] + [("X-VGI-Content-Encoding", v.strip().lower()) for v in xce]
                wit["announced"] = announced
                path_kind = "precompressed" if kind == "producer_cont" else "middleware"
                if exp.coding == neg.AMBIGUOUS:
                    chk.skip(f"choice_unjudged:{exp.why}")
                    cls_out = f"ambiguous:{exp.why}"
                else:
                    cls_out = f"{exp.coding}:{exp.why}"
                chk.case(f"{kind}:{sname}:{cls_out}:{announced[0][0] if announced else '-'}:{shape(vgi)}|{shape(std)}")
                chk.hit("responses_judged")
                chk.hit(f"path_{path_kind}")
                # --- status unchanged by negotiation ---
                if r.status != ref[kind][0]:
                    chk.violation(
                        f"status_changed_by_accept_headers:{kind}",
                        f"status {r.status} differs from the offer-less status {ref[kind][0]}",
                        wit,
                    )
                    continue
                # --- announcing headers well-formed ---
                if len(announced) > 1:
                    chk.violation(f"coding_announced_more_than_once:{kind}", "more than one content-encoding announcement", wit)
                    continue
                got_coding = announced[0][1] if announced else None
                if got_coding == "identity":
                    chk.violation(f"identity_announced:{kind}", "identity must not be stamped ('an untransformed body is just a body')", wit)
                    got_coding = None
                # --- decoded body identical in every case ---
                try:
                    decoded = r.decoded_body()
                    norm = strip(normalise(decoded), ref[kind][2])
                    chk.hit("body_decoded")
                except Exception as exc:  # noqa: BLE001
                    chk.violation(
                        f"body_not_decodable_as_announced:{path_kind}:{got_coding}",
                        f"body does not decode under the announced coding: {type(exc).__name__}: {str(exc)[:120]}",
                        wit,
                    )
                    continue
                if norm != ref[kind][1]:
                    chk.violation(
                        f"decoded_body_differs:{path_kind}:{got_coding}",
                        "decoded body differs from the body of the same request sent without offers",
                        wit,
                    )
                if got_coding is not None:
                    chk.hit(f"coded_{got_coding}")
                    if r.body == decoded:
                        chk.violation(f"announced_but_not_encoded:{path_kind}:{got_coding}", "coding announced but the body is not transformed", wit)
                # --- the choice ---
                if exp.coding == neg.AMBIGUOUS:
                    continue
                chk.hit("choice_judged")
                if got_coding != exp.coding:
                    chk.violation(
                        f"wrong_coding:{path_kind}:{exp.why.replace(':q_agrees', '')}",
                        f"response coding {got_coding!r} but the preference model says {exp.coding!r} ({exp.why})",
                        {**wit, "producible": producible},
                    )
                    continue
                if exp.coding is not None:
                    chk.hit("header_placement_judged")
                    if len(exp.headers) == 2:
                        chk.skip("header_placement_either:coding_offered_in_both_headers")
                    if announced[0][0] not in exp.headers:
                        chk.violation(
                            f"wrong_announcing_header:{path_kind}:{announced[0][0]}",
                            f"coding negotiated via {sorted(exp.headers)} but announced on {announced[0][0]}",
                            wit,
                        )
            if chk.rng.random() < 0.0005:
                chk.sample({"server_set": sname, "x_vgi_accept_encoding": hv, "accept_encoding": hs, "expected": [exp.coding, sorted(exp.headers), exp.why]})
        # --- histories: negotiation is per request - an offer-less request right after a request that negotiated a
        # coding (same worker thread) gets an untransformed, unannounced body ---------------------------------
        for prev_hdr, prev_val in (("Accept-Encoding", "zstd"), ("Accept-Encoding", "gzip"), ("X-VGI-Accept-Encoding", "zstd"), ("X-VGI-Accept-Encoding", "gzip, zstd")):
            for prev_kind, (ppath, pbody) in reqs.items():
                for kind, (path, body) in reqs.items():
                    if kind not in ref:
                        continue
                    rp = httpdrv.call(app, "POST", ppath, {**base, prev_hdr: prev_val}, pbody)
                    r = httpdrv.call(app, "POST", path, base, body)
                    chk.case(f"after_coded_request:{prev_kind}->{kind}:{sname}:{prev_hdr}={prev_val}")
                    chk.hit("offerless_after_coded_judged")
                    wit = {"server_set": sname, "previous": {"kind": prev_kind, prev_hdr: prev_val, "announced": rp.header("content-encoding") or rp.header("x-vgi-content-encoding")}, "kind": kind}
                    if r.header("content-encoding") or r.header("x-vgi-content-encoding"):
                        chk.violation(f"coded_without_offer:{kind}:after_coded_request", "a request offering no coding got an encoded response", wit)
                        continue
                    try:
                        norm = strip(normalise(r.body), ref[kind][2])
                    except Exception as exc:  # noqa: BLE001
                        chk.violation(
                            f"body_not_decodable_as_announced:{'precompressed' if kind == 'producer_cont' else 'middleware'}:None:after_coded_request",
                            f"an offer-less request after a coded one got a body that is not a plain Arrow stream: {type(exc).__name__}: {str(exc)[:100]}",
                            wit,
                        )
                        continue
                    if norm != ref[kind][1]:
                        chk.violation(f"decoded_body_differs:after_coded_request:{kind}", "offer-less body differs from the reference after a coded request", wit)
    return chk.to_result()


def main(tier: str, seed: int) -> int:
    chk = Check(PID, tier, seed, level=CATEGORY, rule=RULE)
    chk.require(
        "responses_judged",
        "choice_judged",
        "header_placement_judged",
        "body_decoded",
        "path_precompressed",
        "path_middleware",
        "coded_zstd",
        "coded_gzip",
    )
    chk.assumptions = [
        "zstandard / zlib decoders and pyarrow IPC reader are trusted",
        "preference model written from WIRE_PROTOCOL.md section 10; q-value reordering, '*' and the announcing header of a "
        "coding offered in both request headers are not judged",
        "server encode sets reachable through make_wsgi_app: {zstd,gzip}, {gzip} (VGI_HTTP_DISABLE_ZSTD=1), {}",
    ]
    rng = random.Random(f"{PID}:{seed}")
    pairs = gen_pairs(tier, rng)
    chk.extra["header_pairs"] = len(pairs)
    chk.exhaustive["pairs_of_lists_len<=2" if tier == "thorough" else "lists_len<=2_x_lists_len<=1"] = True
    chk.exhaustive["lists_len<=4"] = False
    nsh = shard.ncpu()
    rng.shuffle(pairs)
    jobs = []
    for i, part in enumerate(shard.split(pairs, nsh * (1 if tier == "quick" else 3))):
        jobs.append({"tier": tier, "seed": seed * 1000 + i, "pairs": part, "server_sets": list(SERVER_SETS)})
    for res in shard.pmap("checks.c19", "run_shard", jobs, timeout=300 if tier == "quick" else 3000):
        chk.merge(res)
    return chk.finish()

"""C29 - shared-memory transfer is transparent and releases every region.

Three observation channels, all around the real client, server and ``vgi_rpc.shm``:

* differential: the same call history is run over an in-process pipe and over a
  ``ShmPipeTransport`` pair (segment sizes from header+4 KiB up, the shm size
  threshold lowered by rebinding ``vgi_rpc.shm.SHM_MIN_BATCH_BYTES`` so that batch
  sizes straddle it); client-visible traces must be equal.  Histories come from
  ``lib.svcgen`` programs and from a hand-written service with dictionary-encoded,
  nested-dictionary, zero-column, wide and blob batches, big unary values,
  exchange echoes (the server re-emits a batch that lives in the client's region)
  and a request batch sent through shm by a raw driver.
* region ledger: the names ``maybe_write_to_shm`` / ``resolve_shm_batch`` are rebound
  in the modules that imported them to recording wrappers (who allocated which
  offset, who resolved it, whether its release function ran).  After every
  completed call the segment's table must hold exactly the regions of batches the
  application still holds unreleased; anything else is a leak and is keyed by
  who allocated / who consumed it and how the call ended.
* held batches: batches deliberately not released are kept across later calls and
  their contents re-read after every call; a new allocation overlapping a region
  that is still referenced is reported from the ledger as well.
"""

from __future__ import annotations

import contextlib
import random
import threading
from collections.abc import Iterator
from typing import Any

from lib import shard
from lib.evidence import Check

PID = "C29"
ENGINE = "E1-svcgen-rig+E2-raw-drivers+E6-evidence"
TECHNIQUE = "pipe vs shm-pipe differential of client traces + per-call region ledger (rebound shm entry points) + held-batch content re-verification"
LEVEL_TEXT = (
    "Exploration: generated svcgen programs and generated histories (<= 30 calls) of a hand-written service with dictionary, "
    "nested-dictionary, zero-column, wide and blob batches run over a pipe and over shm-pipe configurations (segment data "
    "regions 4 KiB .. 4 MiB x shm threshold 0 .. default); traces compared, the allocation table compared after every completed "
    "call with the set of batches the application still holds, held batches re-read after every later call. Held means no "
    "counterexample among the executions in the evidence."
)
LEVEL_NOTE = "pipe transport is the reference for 'inline'; in-process server thread; pyarrow trusted; requests through shm are driven by a raw writer because the Python client never sends them"
CATEGORY = "exploration"
RULE = (
    "case = one completed call of a history under one (segment size, threshold) configuration; histories: svcgen programs with "
    "batch sizes scaled around the threshold, and hand-service histories mixing unary/producer/exchange calls with release "
    "policies each/after/hold; class = (service, call kind, batch kind, end mode, release policy, routes taken in the call "
    "(shm / inline-small / inline-no-fit), segment bucket)"
)

HEADER = 65536
SHM_SOURCE = b"vgi_rpc.shm_source"


# ---------------------------------------------------------------------------
# hand-written service (source is exec'd so annotations are real objects)
# ---------------------------------------------------------------------------

_HAND_SRC = '''
PLAIN = pa.schema([("i", pa.int64()), ("s", pa.string())])
DICT = pa.schema([("label", pa.dictionary(pa.int32(), pa.utf8())), ("v", pa.int64())])
DICT2 = pa.schema([("a", pa.dictionary(pa.int8(), pa.utf8())), ("b", pa.dictionary(pa.int16(), pa.int64())), ("raw", pa.binary())])
NESTED = pa.schema([("n", pa.struct([("k", pa.dictionary(pa.int32(), pa.utf8())), ("v", pa.int32())]))])
ZERO = pa.schema([])
WIDE = pa.schema([(f"w{j}", pa.int32() if j % 2 else pa.string()) for j in range(24)])
BLOB = pa.schema([("blob", pa.binary())])
COUNT = pa.schema([("n", pa.int64()), ("total", pa.int64())])
SWAP = pa.schema([("s", pa.string()), ("i", pa.int64()), ("i2", pa.int64())])
SCHEMAS = {"plain": PLAIN, "dict": DICT, "dict2": DICT2, "nested": NESTED, "zero": ZERO, "wide": WIDE, "blob": BLOB}


def make_out(kind, pos, rows, size):
    """Deterministic batch number *pos* of a stream of *kind*."""
    if kind == "plain":
        return pa.RecordBatch.from_pydict({"i": [pos * 1000 + r for r in range(rows)], "s": [f"p{pos}-{r}-" + "x" * size for r in range(rows)]}, schema=PLAIN)
    if kind == "dict":
        dsize = max(1, size)
        dictionary = pa.array([f"lab-{pos}-{k}" for k in range(dsize)], pa.utf8())
        idx = pa.array([(r * 7 + pos) % dsize if (r + pos) % 5 else None for r in range(rows)], pa.int32())
        return pa.RecordBatch.from_arrays([pa.DictionaryArray.from_arrays(idx, dictionary), pa.array([pos + r for r in range(rows)], pa.int64())], schema=DICT)
    if kind == "dict2":
        da = pa.DictionaryArray.from_arrays(pa.array([r % 3 for r in range(rows)], pa.int8()), pa.array([f"a{pos}", "bb", "ccc"], pa.utf8()))
        db = pa.DictionaryArray.from_arrays(pa.array([r % 2 for r in range(rows)], pa.int16()), pa.array([pos, pos + 1], pa.int64()))
        return pa.RecordBatch.from_arrays([da, db, pa.array([bytes([pos % 256]) * size for _ in range(rows)], pa.binary())], schema=DICT2)
    if kind == "nested":
        d = pa.DictionaryArray.from_arrays(pa.array([r % 4 for r in range(rows)], pa.int32()), pa.array([f"k{pos}", "k1", "k2", "k3"], pa.utf8()))
        st = pa.StructArray.from_arrays([d, pa.array([pos * 10 + r for r in range(rows)], pa.int32())], names=["k", "v"])
        return pa.RecordBatch.from_arrays([st], schema=NESTED)
    if kind == "zero":
        return pa.RecordBatch.from_pydict({"x": list(range(rows))}).select([])
    if kind == "wide":
        return pa.RecordBatch.from_arrays([pa.array([pos + r + j for r in range(rows)], pa.int32()) if j % 2 else pa.array([f"{pos}.{r}.{j}" + "y" * size for r in range(rows)], pa.string()) for j in range(24)], schema=WIDE)
    if kind == "blob":
        return pa.RecordBatch.from_pydict({"blob": [bytes([(pos + r) % 256]) * size for r in range(rows)]}, schema=BLOB)
    raise AssertionError(kind)


@dataclass
class HProd(ProducerState):
    kind: str
    count: int
    rows: int
    size: int
    fail_at: int
    pos: int = 0

    def produce(self, out: OutputCollector, ctx: CallContext) -> None:
        if self.pos == self.fail_at:
            raise ValueError(f"scripted failure at {self.pos}")
        if self.pos >= self.count:
            out.finish()
            return
        b = make_out(self.kind, self.pos, self.rows, self.size)
        self.pos += 1
        if self.pos % 2 == 0:
            out.client_log(Level.INFO, f"batch {self.pos}")
        out.emit(b, metadata={"pos": str(self.pos)} if self.pos % 3 == 0 else None)


@dataclass
class HXchg(ExchangeState):
    kind: str
    fail_at: int
    turns: int = 0

    def exchange(self, input: AnnotatedBatch, out: OutputCollector, ctx: CallContext) -> None:
        t = self.turns
        self.turns += 1
        if t == self.fail_at:
            raise RuntimeError(f"scripted exchange failure at {t}")
        if self.kind == "count":
            col = input.batch.column("i")
            out.emit_pydict({"n": [input.batch.num_rows], "total": [sum(v for v in col.to_pylist() if v is not None)]})
        elif self.kind == "swap":
            # zero-copy rearrangement of the input: the output's buffers are the input's shm region, in another layout
            b = input.batch
            out.emit(pa.RecordBatch.from_arrays([b.column("s"), b.column("i"), b.column("i")], schema=SWAP))
        else:
            out.emit(input.batch)  # echo: the emitted batch still lives in the client's shm region


class HandSvc(Protocol):
    def big(self, n: int, tag: str) -> bytes: ...
    def bigstr(self, n: int) -> str: ...
    def echo_bytes(self, data: bytes) -> bytes: ...
    def void(self, n: int) -> None: ...
    def noargs(self) -> int: ...
    def boom(self, n: int) -> bytes: ...
    def prod(self, kind: str, count: int, rows: int, size: int, fail_at: int) -> Stream[ProducerState]: ...
    def xchg(self, kind: str, fail_at: int) -> Stream[ExchangeState]: ...


class HandImpl:
    def big(self, n: int, tag: str) -> bytes:
        return (tag.encode() or b"?") * n

    def bigstr(self, n: int) -> str:
        return "s" * n

    def echo_bytes(self, data: bytes) -> bytes:
        return data

    def void(self, n: int) -> None:
        return None

    def noargs(self) -> int:
        return 7

    def boom(self, n: int) -> bytes:
        raise KeyError("x" * n)

    def prod(self, kind: str, count: int, rows: int, size: int, fail_at: int) -> Stream[HProd]:
        return Stream(output_schema=SCHEMAS[kind], state=HProd(kind=kind, count=count, rows=rows, size=size, fail_at=fail_at))

    def xchg(self, kind: str, fail_at: int) -> Stream[HXchg]:
        if kind == "count":
            return Stream(output_schema=COUNT, input_schema=PLAIN, state=HXchg(kind=kind, fail_at=fail_at))
        if kind == "swap":
            return Stream(output_schema=SWAP, input_schema=PLAIN, state=HXchg(kind=kind, fail_at=fail_at))
        sch = SCHEMAS[kind]
        return Stream(output_schema=sch, input_schema=sch, state=HXchg(kind=kind, fail_at=fail_at))
'''

_HAND: dict[str, Any] = {}


def hand() -> dict[str, Any]:
    """Namespace of the hand-written service (built once per process)."""
    if _HAND:
        return _HAND
    from dataclasses import dataclass
    from typing import Protocol

    import pyarrow as pa

    from vgi_rpc.log import Level
    from vgi_rpc.rpc import AnnotatedBatch, CallContext, ExchangeState, OutputCollector, ProducerState, Stream

    ns: dict[str, Any] = dict(
        pa=pa, dataclass=dataclass, Protocol=Protocol, Level=Level, AnnotatedBatch=AnnotatedBatch, CallContext=CallContext,
        ExchangeState=ExchangeState, OutputCollector=OutputCollector, ProducerState=ProducerState, Stream=Stream, __name__="checks.c29",
    )  # fmt: skip
    exec(compile(_HAND_SRC, "<c29:hand>", "exec"), ns)  # noqa: S102
    _HAND.update(ns)
    return _HAND


# ---------------------------------------------------------------------------
# region ledger (rebinding of the shm entry points in their importing modules)
# ---------------------------------------------------------------------------


class Ledger:
    """Records who allocated / resolved / released which region of the current segment."""

    def __init__(self) -> None:
        self.regions: dict[int, dict[str, Any]] = {}
        self.counts: dict[str, int] = {}
        self.client_thread: int = threading.get_ident()
        self.call: str = "?"
        self.reuse: list[dict[str, Any]] = []
        self.routes: set[str] = set()
        self.seg: Any = None
        self.lock = threading.Lock()
        self.seq = 0

    def side(self) -> str:
        return "client" if threading.get_ident() == self.client_thread else "server"

    def bump(self, k: str) -> None:
        self.counts[k] = self.counts.get(k, 0) + 1

    def new_segment(self, seg: Any) -> None:
        self.regions = {}
        self.reuse = []
        self.seg = seg
        self.client_thread = threading.get_ident()


LEDGER = Ledger()
_WRAPPED = [False]


def install_wrappers() -> None:
    if _WRAPPED[0]:
        return
    from lib.models import shm_alloc as M
    from vgi_rpc import shm as shm_mod
    from vgi_rpc.rpc import _client, _server, _wire

    orig_write = shm_mod.maybe_write_to_shm
    orig_resolve = shm_mod.resolve_shm_batch
    off_key, len_key = b"vgi_rpc.shm_offset", b"vgi_rpc.shm_length"

    def maybe_write_to_shm(batch: Any, custom_metadata: Any, shm: Any) -> Any:
        out_batch, out_cm = orig_write(batch, custom_metadata, shm)
        if shm is None:
            return out_batch, out_cm
        with LEDGER.lock:
            LEDGER.bump("write_calls")
            routed = out_cm is not None and out_cm.get(off_key) is not None and out_batch.num_rows == 0 and batch.num_rows > 0
            if routed:
                off = int(out_cm.get(off_key))
                ln = int(out_cm.get(len_key))
                LEDGER.bump("routed_shm")
                LEDGER.routes.add("shm")
                table = dict(M.HeaderView(shm.buf).entries)
                alloc_len = table.get(off, ln)
                for o, r in LEDGER.regions.items():
                    if not r["released"] and o < off + alloc_len and off < o + r["alloc_len"]:
                        LEDGER.reuse.append({"new": [off, alloc_len], "old": [o, r["alloc_len"]], "old_state": {k: r[k] for k in ("alloc_by", "resolved_by", "call")}, "call": LEDGER.call})
                LEDGER.regions[off] = {"alloc_by": LEDGER.side(), "alloc_len": alloc_len, "written": ln, "resolved_by": None, "released": False, "call": LEDGER.call, "rows": batch.num_rows}
            elif batch.num_rows == 0:
                LEDGER.bump("inline_zero_rows")
            elif batch.nbytes < shm_mod.SHM_MIN_BATCH_BYTES:
                LEDGER.bump("inline_below_threshold")
                LEDGER.routes.add("small")
            else:
                LEDGER.bump("inline_no_fit")
                LEDGER.routes.add("nofit")
        return out_batch, out_cm

    def resolve_shm_batch(batch: Any, custom_metadata: Any, shm: Any) -> Any:
        pointer_off = None
        if shm is not None and custom_metadata is not None and batch.num_rows == 0 and custom_metadata.get(off_key) is not None:
            with contextlib.suppress(Exception):
                pointer_off = int(custom_metadata.get(off_key))
        rb, rcm, release = orig_resolve(batch, custom_metadata, shm)
        if release is None or pointer_off is None:
            return rb, rcm, release
        with LEDGER.lock:
            LEDGER.bump("resolved")
            rec = LEDGER.regions.get(pointer_off)
            if rec is None:
                rec = LEDGER.regions[pointer_off] = {"alloc_by": "raw", "alloc_len": 0, "written": 0, "resolved_by": None, "released": False, "call": LEDGER.call, "rows": -1}
            rec["resolved_by"] = LEDGER.side()
            if rec["resolved_by"] == "server" and LEDGER.call.startswith("unary:"):
                LEDGER.bump("server_resolved_unary_request")  # only the raw driver sends requests through shm
            LEDGER.seq += 1
            rec["seq"] = LEDGER.seq

        def recorded_release() -> None:
            release()
            with LEDGER.lock:
                LEDGER.bump("released")
                r = LEDGER.regions.get(pointer_off)
                if r is not None:
                    r["released"] = True

        return rb, rcm, recorded_release

    _wire.maybe_write_to_shm = maybe_write_to_shm  # type: ignore[attr-defined]
    _client.maybe_write_to_shm = maybe_write_to_shm  # type: ignore[attr-defined]
    _wire.resolve_shm_batch = resolve_shm_batch  # type: ignore[attr-defined]
    _server.resolve_shm_batch = resolve_shm_batch  # type: ignore[attr-defined]
    _WRAPPED[0] = True


# ---------------------------------------------------------------------------
# transports
# ---------------------------------------------------------------------------


@contextlib.contextmanager
def open_conn(proto: Any, impl: Any, cfg: dict[str, Any], on_log: Any) -> Iterator[tuple[Any, Any, Any]]:
    """Yield (proxy, segment_or_None, client_transport) for cfg kind pipe | shm."""
    from vgi_rpc.rpc import RpcConnection, RpcServer, ShmPipeTransport, make_pipe_pair
    from vgi_rpc.shm import ShmSegment

    seg = None
    cp, sp = make_pipe_pair()
    ct: Any = cp
    st: Any = sp
    if cfg["kind"] == "shm":
        seg = ShmSegment.create(cfg["shm_size"])
        ct, st = ShmPipeTransport(cp, seg), ShmPipeTransport(sp, seg)
        LEDGER.new_segment(seg)
    server = RpcServer(proto, impl)
    died: list[BaseException] = []

    def serve() -> None:
        try:
            server.serve(st)
        except Exception as exc:
            died.append(exc)

    th = threading.Thread(target=serve, daemon=True)
    th.start()
    try:
        with RpcConnection(proto, ct, on_log=on_log) as proxy:
            yield proxy, seg, ct
    finally:
        with contextlib.suppress(Exception):
            ct.close()
        th.join(timeout=5)
        with contextlib.suppress(Exception):
            st.close()
        if seg is not None:
            LEDGER.seg = None
            with contextlib.suppress(Exception):
                seg.unlink()
            with contextlib.suppress(Exception):
                seg.close()


def table_of(seg: Any) -> list[tuple[int, int]]:
    from lib.models import shm_alloc as M

    return M.HeaderView(seg.buf).entries


# ---------------------------------------------------------------------------
# per-call accounting (shared by both services)
# ---------------------------------------------------------------------------


def seg_bucket(cfg: dict[str, Any]) -> str:
    if cfg["kind"] != "shm":
        return "pipe"
    d = cfg["shm_size"] - HEADER
    return "seg<=8K" if d <= 8192 else "seg<=64K" if d <= 65536 else "seg>64K"


def account(chk: Check, seg: Any, held_offsets: set[int], call_desc: dict[str, Any], cfg: dict[str, Any], sync: Any) -> None:
    """After a completed call: the table must hold exactly the regions the application still holds."""
    entries = table_of(seg)
    n_api = int(seg.allocator.num_allocs)
    offs = {o for o, _ in entries}
    chk.hit("table_checked_after_call")
    if n_api != len(entries):
        chk.violation("num_allocs_differs_from_header", "segment.allocator.num_allocs differs from the header count", {"api": n_api, "header": len(entries)})
    if offs == held_offsets:
        chk.hit("table_equals_held_set")
        return
    # give the peer one full round trip before calling it a leak (logical sync, not a sleep)
    if sync is not None:
        with contextlib.suppress(Exception):
            sync()
        entries = table_of(seg)
        offs = {o for o, _ in entries}
        if offs == held_offsets:
            chk.skip("region_freed_only_after_the_call_completed(settled by the next call)")
            return
    wit_base = {"call": call_desc, "cfg": cfg, "table": entries[:12], "held_by_application": sorted(held_offsets)[:12]}
    for off in sorted(offs - held_offsets):
        rec = LEDGER.regions.get(off)
        if rec is None:
            key = f"region_not_freed:unknown_origin:{call_desc['kind']}:{call_desc['outcome']}"
            chk.violation(key, "a table entry that no recorded write produced remains after the call", wit_base)
            continue
        state = "never_resolved" if rec["resolved_by"] is None else f"resolved_by_{rec['resolved_by']}_not_released"
        key = f"region_not_freed:allocated_by_{rec['alloc_by']}:{state}:{call_desc['kind']}:{call_desc['outcome']}"
        chk.violation(key, "a region allocated during the call is still in the allocation table after the call completed and the application released its batches", {**wit_base, "region": [off, rec["alloc_len"]], "ledger": {k: rec[k] for k in ("alloc_by", "resolved_by", "released", "call", "rows")}})
        # do not report the same region again after every later call
        held_offsets.add(off)
    for off in sorted(held_offsets - offs):
        chk.violation(f"held_region_missing_from_table:{call_desc['kind']}:{call_desc['outcome']}", "a region still referenced by an unreleased batch is no longer in the allocation table", {**wit_base, "region": off})
        held_offsets.discard(off)


def report_reuse(chk: Check, call_desc: dict[str, Any], cfg: dict[str, Any]) -> None:
    for r in LEDGER.reuse:
        chk.violation(
            f"region_reused_while_referenced:{r['old_state']['alloc_by']}_allocated:{call_desc['kind']}",
            "a new allocation overlaps a region whose batch has not been released",
            {"reuse": r, "cfg": cfg},
        )
    LEDGER.reuse = []


# ---------------------------------------------------------------------------
# hand-service histories
# ---------------------------------------------------------------------------

STREAM_KINDS = ["plain", "dict", "dict2", "nested", "zero", "wide", "blob"]
XCHG_KINDS = ["plain", "dict", "zero", "count", "blob", "swap"]


def _sizes_around(rng: random.Random, t: int) -> int:
    t = max(t, 8)
    return rng.choice([0, 1, t // 2, max(0, t - 40), t, t + 40, 3 * t, 20 * t])


def gen_history(rng: random.Random, n: int, threshold: int) -> list[dict[str, Any]]:
    calls: list[dict[str, Any]] = []
    t = threshold if threshold > 0 else 300
    for _ in range(n):
        r = rng.random()
        if r < 0.28:
            m = rng.choice(["big", "bigstr", "echo_bytes", "void", "noargs", "boom", "raw_echo_bytes"])
            nbytes = min(_sizes_around(rng, t), 3_000_000)
            args: dict[str, Any]
            if m == "big":
                args = {"n": nbytes, "tag": rng.choice(["a", "é"])}
            elif m in ("bigstr", "void", "boom"):
                args = {"n": nbytes if m != "boom" else min(nbytes, 5000)}
            elif m in ("echo_bytes", "raw_echo_bytes"):
                args = {"data": bytes([rng.randrange(256)]) * nbytes}
            else:
                args = {}
            calls.append({"kind": "unary", "m": m, "args": args})
        elif r < 0.62:
            kind = rng.choice(STREAM_KINDS)
            rows = rng.choice([0, 1, 3, 40])
            size = min(_sizes_around(rng, t) // max(1, rows), 400_000) if kind in ("plain", "blob", "dict2", "wide") else rng.choice([1, 4, 20]) if kind == "nested" else rng.choice([1, 3, 50, 400])
            if kind == "wide":
                size = min(size, 2000)
            count = rng.choice([0, 1, 2, 3, 5, 8])
            take = rng.choice([None, None, None, 0, 1, 2])
            calls.append(
                {
                    "kind": "producer",
                    "batch_kind": kind,
                    "args": {"kind": kind, "count": count, "rows": rows, "size": size, "fail_at": rng.choice([-1, -1, -1, 1, 2])},
                    "take": take,
                    "end": "drain" if take is None else rng.choice(["close", "cancel"]),
                    "release": rng.choice(["each", "each", "after", "hold"]),
                }
            )
        elif r < 0.9:
            kind = rng.choice(XCHG_KINDS)
            in_kind = "plain" if kind in ("count", "swap") else kind
            nin = rng.choice([0, 1, 2, 4, 6])
            inputs = []
            for k in range(nin):
                rows = rng.choice([0, 1, 3, 40])
                size = min(_sizes_around(rng, t) // max(1, rows), 400_000) if in_kind in ("plain", "blob") else rng.choice([1, 3, 50])
                inputs.append({"kind": in_kind, "pos": k, "rows": rows, "size": size})
            calls.append(
                {
                    "kind": "exchange",
                    "batch_kind": kind,
                    "args": {"kind": kind, "fail_at": rng.choice([-1, -1, -1, 0, 1, 3])},
                    "inputs": inputs,
                    "bad_first_input": rng.random() < 0.08,
                    "end": rng.choice(["close", "close", "cancel"]),
                    "release": rng.choice(["each", "each", "after", "hold"]),
                }
            )
        else:
            calls.append({"kind": "release_held", "k": rng.choice([1, 2, 100])})
    calls.append({"kind": "release_held", "k": 10_000})
    return calls


def _norm(ab: Any) -> list[Any]:
    from lib import rig

    return ["batch", {"schema": str(ab.batch.schema), "rows": ab.batch.num_rows, "data": ab.batch.to_pydict()}, rig.norm_meta(ab.custom_metadata)]


def _from_shm(ab: Any) -> bool:
    cm = ab.custom_metadata
    return cm is not None and cm.get(SHM_SOURCE) is not None


class Held:
    __slots__ = ("ab", "offset", "snapshot", "via_shm")

    def __init__(self, ab: Any, snapshot: Any, offset: int | None) -> None:
        self.ab = ab
        self.snapshot = snapshot
        self.offset = offset
        self.via_shm = _from_shm(ab)


def _raw_unary_via_shm(ct: Any, seg: Any, proto: Any, method: str, kwargs: dict[str, Any], on_log: Any) -> Any:
    """Send the request batch through the shm side channel (as e.g. the C++ client does) and read the reply."""
    import pyarrow as pa
    from pyarrow import ipc

    from vgi_rpc.metadata import REQUEST_VERSION, REQUEST_VERSION_KEY, RPC_METHOD_KEY, SHM_SEGMENT_NAME_KEY, SHM_SEGMENT_SIZE_KEY
    from vgi_rpc.rpc import _wire, rpc_methods
    from vgi_rpc.utils import IpcValidation, ValidatedReader

    info = rpc_methods(proto)[method]
    arrays = [pa.array([kwargs[f.name]], type=f.type) for f in info.params_schema]
    batch = pa.RecordBatch.from_arrays(arrays, schema=info.params_schema)
    md: dict[bytes, bytes] = {RPC_METHOD_KEY: method.encode(), REQUEST_VERSION_KEY: REQUEST_VERSION}
    if seg is not None:
        md[SHM_SEGMENT_NAME_KEY] = seg.name.encode()
        md[SHM_SEGMENT_SIZE_KEY] = str(seg.size).encode()
    out_batch, out_cm = _wire.maybe_write_to_shm(batch, pa.KeyValueMetadata(md), seg)
    if out_cm is None:
        out_cm = pa.KeyValueMetadata(md)
    with ipc.new_stream(ct.writer, info.params_schema) as w:
        w.write_batch(out_batch, custom_metadata=out_cm)
    ct.writer.flush()
    reader = ValidatedReader(ipc.open_stream(ct.reader), IpcValidation.FULL)
    return _wire._read_unary_response(reader, info, on_log, None, shm=seg)


def drive_history(chk: Check | None, proxy: Any, seg: Any, ct: Any, calls: list[dict[str, Any]], cfg: dict[str, Any], logs: list[Any]) -> list[list[Any]]:
    """Run a hand-service history; returns the trace.  With *seg* it also does the accounting."""
    import pyarrow as pa

    from vgi_rpc.rpc import AnnotatedBatch, RpcError

    H = hand()
    held: list[Held] = []
    held_offsets: set[int] = set()  # includes regions already reported as leaked (so they are reported once)
    traces: list[list[Any]] = []
    dead = False

    def sync() -> None:
        proxy.noargs()

    def keep(ab: Any, policy: str, local: list[Any]) -> None:
        if policy == "each":
            ab.release()
            return
        off = None
        if seg is not None and _from_shm(ab):
            # the most recent client-side resolution is this batch
            cands = [(r.get("seq", 0), o) for o, r in LEDGER.regions.items() if r["resolved_by"] == "client" and not r["released"] and o not in held_offsets]
            off = max(cands)[1] if cands else None
            if off is not None:
                held_offsets.add(off)
        h = Held(ab, ab.batch.to_pydict(), off)
        (local if policy == "after" else held).append(h)

    def drop(h: Held) -> None:
        h.ab.release()
        if h.offset is not None:
            held_offsets.discard(h.offset)

    for call in calls:
        if dead:
            break
        ev: list[Any] = []
        logs.clear()
        LEDGER.call = call["kind"] + ":" + str(call.get("m") or call.get("batch_kind") or "")
        LEDGER.routes = set()
        outcome = "ok"
        local: list[Held] = []

        def flush(ev: list[Any] = ev) -> None:
            ev.extend(logs)
            logs.clear()

        try:
            if call["kind"] == "release_held":
                for h in held[: call["k"]]:
                    drop(h)
                del held[: call["k"]]
                outcome = "released"
            elif call["kind"] == "unary":
                try:
                    if call["m"] == "raw_echo_bytes":
                        res = _raw_unary_via_shm(ct, seg, H["HandSvc"], "echo_bytes", call["args"], logs.append)
                    else:
                        res = getattr(proxy, call["m"])(**call["args"])
                    flush()
                    ev.append(["result", res if not isinstance(res, (bytes, str)) or len(res) < 64 else [type(res).__name__, len(res), hash(res)]])
                except RpcError as e:
                    flush()
                    outcome = f"error_{e.error_type}"
                    ev.append(["error", e.error_type, e.error_message[:200]])
            elif call["kind"] == "producer":
                sess = proxy.prod(**call["args"])
                try:
                    n = 0
                    it = iter(sess)
                    while call["take"] is None or n < call["take"]:
                        try:
                            ab = next(it)
                        except StopIteration:
                            flush()
                            ev.append(["end"])
                            break
                        flush()
                        ev.append(_norm(ab))
                        keep(ab, call["release"], local)
                        n += 1
                    else:
                        if call["end"] == "cancel":
                            sess.cancel()
                            outcome = "cancel"
                        else:
                            sess.close()
                            outcome = "close_early"
                        logs.clear()
                        ev.append([outcome])
                except RpcError as e:
                    flush()
                    outcome = f"error_{e.error_type}"
                    ev.append(["error", e.error_type, e.error_message[:200]])
            elif call["kind"] == "exchange":
                sess = proxy.xchg(**call["args"])
                failed = False
                try:
                    for j, inp in enumerate(call["inputs"]):
                        b = H["make_out"](inp["kind"], inp["pos"], inp["rows"], inp["size"])
                        if j == 0 and call["bad_first_input"]:
                            b = pa.RecordBatch.from_pydict({"unexpected_column": list(range(max(1, inp["rows"])))})
                        ab = sess.exchange(AnnotatedBatch(batch=b))
                        flush()
                        ev.append(_norm(ab))
                        keep(ab, call["release"], local)
                except RpcError as e:
                    flush()
                    outcome = f"error_{e.error_type}"
                    ev.append(["error", e.error_type, e.error_message[:200]])
                    failed = True
                    if e.error_type == "TransportError":
                        dead = True
                if not failed:
                    if call["end"] == "cancel":
                        sess.cancel()
                        outcome = "cancel"
                    else:
                        sess.close()
                        outcome = "close"
                    logs.clear()
                    ev.append([outcome])
        except Exception as exc:  # client library raised something other than RpcError
            flush()
            outcome = f"raised_{type(exc).__name__}"
            ev.append(["raised", type(exc).__name__, str(exc)[:200]])
            dead = True
        for h in local:
            drop(h)
        traces.append(ev)
        if seg is not None and chk is not None and not dead:
            routes = "+".join(sorted(LEDGER.routes)) or "none"
            desc = {"kind": call["kind"], "outcome": outcome}
            shape = call["kind"] + ("_" + call["batch_kind"] if call.get("batch_kind") else "_" + call["m"] if call.get("m") else "")
            chk.case(f"hand:{shape}:{outcome}:rel={call.get('release', '-')}:routes={routes}:held={'y' if held else 'n'}:{seg_bucket(cfg)}")
            if held:
                chk.hit("call_completed_while_batches_held")
            if "shm" in LEDGER.routes:
                chk.hit(f"shm_route:{shape}")
            account(chk, seg, held_offsets, {**desc, "call": {k: v for k, v in call.items() if k != "args"}}, cfg, sync)
            reused = {r["old"][0] for r in LEDGER.reuse}
            report_reuse(chk, desc, cfg)
            # every batch the application still holds must read back as it did on receipt
            for h in held:
                chk.hit("held_batch_reverified")
                if h.offset in reused:
                    h.snapshot = "region reused (reported from the ledger); not read again"
                    continue
                if h.snapshot == "region reused (reported from the ledger); not read again":
                    continue
                try:
                    h.ab.batch.validate(full=True)  # corrupted offsets would crash to_pydict
                    now = h.ab.batch.to_pydict()
                except Exception as exc:
                    now = f"unreadable: {type(exc).__name__}"
                if now != h.snapshot:
                    chk.violation(
                        f"held_batch_changed:{'shm' if h.via_shm else 'inline'}:{desc['kind']}",
                        "the contents of a batch the client has not released changed after a later call",
                        {"cfg": cfg, "later_call": desc, "offset": h.offset},
                    )
                    h.snapshot = now
    for h in held:
        with contextlib.suppress(Exception):
            h.ab.release()
    held.clear()
    return traces


def run_hand_case(chk: Check, job_rng: random.Random, nmax: int) -> None:
    from vgi_rpc import shm as shm_mod

    H = hand()
    cfgs = []
    for _ in range(2):
        cfgs.append({"kind": "shm", "shm_size": HEADER + job_rng.choice([4096, 8192, 12288, 20480, 65536, 1 << 20, 4 << 20]), "threshold": job_rng.choice([0, 1, 200, 2000, 2000, 20000, None])})
    threshold_for_gen = job_rng.choice([c["threshold"] for c in cfgs])
    default_t = _DEFAULT_THRESHOLD[0]
    calls = gen_history(job_rng, job_rng.randint(3, nmax), default_t if threshold_for_gen is None else threshold_for_gen)
    logs: list[Any] = []

    def on_log(msg: Any) -> None:
        from lib import rig

        logs.append(rig.norm_log(msg))

    shm_mod.SHM_MIN_BATCH_BYTES = default_t
    with open_conn(H["HandSvc"], H["HandImpl"](), {"kind": "pipe"}, on_log) as (proxy, _seg, ct):
        ref = drive_history(None, proxy, None, ct, calls, {"kind": "pipe"}, logs)
    for cfg in cfgs:
        shm_mod.SHM_MIN_BATCH_BYTES = default_t if cfg["threshold"] is None else cfg["threshold"]
        try:
            with open_conn(H["HandSvc"], H["HandImpl"](), cfg, on_log) as (proxy, seg, ct):
                got = drive_history(chk, proxy, seg, ct, calls, cfg, logs)
        finally:
            shm_mod.SHM_MIN_BATCH_BYTES = default_t
        compare_traces(chk, "hand", calls, ref, got, cfg)
    if len(chk.samples) < 2:
        chk.sample({"service": "hand", "calls": [{k: (v if k != "args" else {a: (b if not isinstance(b, bytes) else len(b)) for a, b in v.items()}) for k, v in c.items()} for c in calls[:6]], "cfgs": cfgs})


def same(a: Any, b: Any) -> bool:
    """Structural equality with NaN == NaN and type-exact scalars (bool is not int, bytes is not str)."""
    if isinstance(a, float) and isinstance(b, float):
        return a == b or (a != a and b != b)
    if isinstance(a, (list, tuple)) and isinstance(b, (list, tuple)):
        return len(a) == len(b) and all(same(x, y) for x, y in zip(a, b, strict=True))
    if isinstance(a, dict) and isinstance(b, dict):
        return list(a.keys()) == list(b.keys()) and all(same(a[k], b[k]) for k in a)
    return type(a) is type(b) and bool(a == b)


def compare_traces(chk: Check, svc: str, calls: list[dict[str, Any]], ref: list[list[Any]], got: list[list[Any]], cfg: dict[str, Any], kind_of: Any = None) -> None:
    chk.hit("trace_compared")
    if same(ref, got):
        chk.hit("trace_equal")
        return
    for i, (a, b) in enumerate(zip(ref, got, strict=False)):
        if not same(a, b):
            call = calls[i] if i < len(calls) else {}
            kind = call.get("kind") or (kind_of(call) if kind_of is not None else "call")
            bk = call.get("batch_kind") or ""
            first = next((j for j, (x, y) in enumerate(zip(a, b, strict=False)) if not same(x, y)), min(len(a), len(b)))
            ea = a[first][0] if first < len(a) else "nothing"
            eb = b[first][0] if first < len(b) else "nothing"
            chk.violation(
                f"shm_trace_differs_from_pipe:{svc}:{kind}{':' + bk if bk else ''}:{ea}_vs_{eb}",
                "client-visible events over the shm-pipe differ from the inline pipe run of the same history",
                {"cfg": cfg, "call_index": i, "call": {k: v for k, v in call.items() if k != "args"}, "pipe": a[first : first + 2], "shm": b[first : first + 2]},
            )
            return
    chk.violation(f"shm_trace_differs_from_pipe:{svc}:length", "different number of calls completed", {"cfg": cfg, "pipe_calls": len(ref), "shm_calls": len(got)})


# ---------------------------------------------------------------------------
# svcgen programs
# ---------------------------------------------------------------------------


def gen_svc_program(rng: random.Random, threshold: int) -> dict[str, Any]:
    from lib import svcgen

    t = threshold if threshold > 0 else 300
    prog = svcgen.gen_program(rng, nmethods=rng.choice([2, 3, 4]), ncalls=1)
    for m in prog["methods"]:
        if m["kind"] == "unary":
            # make some results large enough to take the shm route
            if m.get("ret") in (("str",), ("bytes",)) and m["u"]["act"][0] == "return" and rng.random() < 0.7:
                n = _sizes_around(rng, t)
                m["u"]["act"] = ("return", "r" * n if m["ret"] == ("str",) else b"r" * n)
            continue
        if m["init"]["act"][0] != "ok":
            m["init"]["act"] = ("ok",)  # stream-init errors desynchronise pipes (C04); not this property
        for st in m.get("steps", []):
            if st["act"] in ("emit", "emit_finish"):
                st["rows"] = rng.choice([0, 1, 2, 5, 40])
                st["pad"] = _sizes_around(rng, t) // max(1, st["rows"]) if rng.random() < 0.7 else 0
    calls = []
    for _ in range(rng.randint(3, 30)):
        m = rng.choice(prog["methods"])
        c = svcgen.gen_call(m, rng)
        if m["kind"] == "exchange":
            n = rng.choice([0, 1, 2, 3, 5])
            c["inputs"] = [svcgen.make_rows("in", k, rng.choice([0, 1, 3, 40]), m["in_cols"]) for k in range(n)]
            for inp in c["inputs"]:
                for col, vals in inp.items():
                    if col[0] == "s":
                        inp[col] = [v + "p" * (_sizes_around(rng, t) // max(1, len(vals))) for v in vals]
        calls.append(c)
    prog["calls"] = calls
    return prog


def run_svc_case(chk: Check, job_rng: random.Random) -> None:
    from lib import rig, svcgen
    from vgi_rpc import shm as shm_mod

    default_t = _DEFAULT_THRESHOLD[0]
    cfgs = []
    for _ in range(2):
        cfgs.append({"kind": "shm", "shm_size": HEADER + job_rng.choice([4096, 8192, 12288, 65536, 1 << 20]), "threshold": job_rng.choice([0, 1, 200, 2000, 20000, None])})
    tg = job_rng.choice([c["threshold"] for c in cfgs])
    prog = gen_svc_program(job_rng, default_t if tg is None else tg)
    methods = {m["name"]: m for m in prog["methods"]}
    logs: list[Any] = []

    def on_log(msg: Any) -> None:
        logs.append(rig.norm_log(msg))

    shm_mod.SHM_MIN_BATCH_BYTES = default_t
    proto, impl = svcgen.build(prog)
    with open_conn(proto, impl, {"kind": "pipe"}, on_log) as (proxy, _seg, _ct):
        ref = rig.run_calls(proxy, prog, collect_log=logs)
    for cfg in cfgs:
        shm_mod.SHM_MIN_BATCH_BYTES = default_t if cfg["threshold"] is None else cfg["threshold"]
        got: list[list[Any]] = []
        try:
            proto, impl = svcgen.build(prog)
            with open_conn(proto, impl, cfg, on_log) as (proxy, seg, _ct):
                leaked: set[int] = set()
                sync_m = next((m for m in prog["methods"] if m["kind"] == "unary" and m["u"]["act"][0] != "raise" and not m["params"]), None)

                def sync(proxy: Any = proxy, sync_m: Any = sync_m) -> None:
                    if sync_m is not None:
                        getattr(proxy, sync_m["name"])()

                for call in prog["calls"]:
                    LEDGER.call = f"{methods[call['m']]['kind']}:{call['m']}"
                    LEDGER.routes = set()
                    tr = rig.run_calls(proxy, prog, collect_log=logs, calls=[call])
                    got.extend(tr)
                    last = tr[0][-1][0] if tr and tr[0] else "none"
                    outcome = {"result": "ok", "end": "ok", "closed": "close", "cancelled": "cancel"}.get(last, last)
                    kind = methods[call["m"]]["kind"]
                    routes = "+".join(sorted(LEDGER.routes)) or "none"
                    chk.case(f"svcgen:{kind}:{outcome}:take={call.get('take', '-')}:routes={routes}:{seg_bucket(cfg)}")
                    desc = {"kind": kind, "outcome": outcome, "call": {k: v for k, v in call.items() if k not in ("args", "inputs")}}
                    account(chk, seg, leaked, desc, cfg, sync if sync_m is not None else None)
                    report_reuse(chk, desc, cfg)
        finally:
            shm_mod.SHM_MIN_BATCH_BYTES = default_t
        compare_traces(chk, "svcgen", prog["calls"], ref, got, cfg, kind_of=lambda c: methods[c["m"]]["kind"])
    if len(chk.samples) < 4:
        chk.sample({"service": "svcgen", "methods": [(m["name"], m["kind"], m.get("out_cols")) for m in prog["methods"]], "ncalls": len(prog["calls"]), "cfgs": cfgs})


# ---------------------------------------------------------------------------
# fixed scenarios (deterministic, every run): each statement clause once
# ---------------------------------------------------------------------------


def fixed_histories() -> list[tuple[dict[str, Any], list[dict[str, Any]]]]:
    def prod(kind: str, count: int, rows: int, size: int, **kw: Any) -> dict[str, Any]:
        return {"kind": "producer", "batch_kind": kind, "args": {"kind": kind, "count": count, "rows": rows, "size": size, "fail_at": kw.get("fail_at", -1)}, "take": kw.get("take"), "end": kw.get("end", "drain"), "release": kw.get("release", "each")}

    def xchg(kind: str, inputs: list[tuple[int, int]], **kw: Any) -> dict[str, Any]:
        in_kind = "plain" if kind in ("count", "swap") else kind
        return {"kind": "exchange", "batch_kind": kind, "args": {"kind": kind, "fail_at": kw.get("fail_at", -1)}, "inputs": [{"kind": in_kind, "pos": k, "rows": r, "size": s} for k, (r, s) in enumerate(inputs)], "bad_first_input": kw.get("bad", False), "end": kw.get("end", "close"), "release": kw.get("release", "each")}

    def un(m: str, **args: Any) -> dict[str, Any]:
        return {"kind": "unary", "m": m, "args": args}

    rel_all = {"kind": "release_held", "k": 10_000}
    out = []
    big = {"kind": "shm", "shm_size": HEADER + (4 << 20), "threshold": 0}
    # every batch kind through shm, released each / held across the rest of the history
    for pol in ("each", "hold", "after"):
        out.append((big, [prod(k, 4, 5, 30, release=pol) for k in STREAM_KINDS] + [un("big", n=5000, tag="a"), un("void", n=1), un("noargs")] + [xchg(k, [(3, 10), (40, 10), (1, 0)], release=pol) for k in XCHG_KINDS] + [rel_all]))
    # early close / cancel / error endings
    out.append((big, [prod("plain", 6, 5, 100, take=2, end="close"), prod("dict", 6, 5, 10, take=1, end="cancel"), prod("blob", 6, 2, 5000, fail_at=2), xchg("plain", [(3, 10), (3, 10), (3, 10)], fail_at=1), xchg("dict", [(3, 10)], end="cancel"), un("boom", n=3000), xchg("count", [(5, 5)] * 6, release="hold"), rel_all]))
    # input that the server rejects after resolving it from shm
    out.append((big, [xchg("plain", [(3, 10), (3, 10)], bad=True), un("noargs"), xchg("plain", [(3, 10)]), rel_all]))
    # request batch through shm (raw driver) + big results
    out.append((big, [un("raw_echo_bytes", data=b"q" * 70_000), un("echo_bytes", data=b"z" * 70_000), un("raw_echo_bytes", data=b""), un("bigstr", n=200_000), rel_all]))
    # batches too large for the segment: inline fallback, identical arrival
    for data in (4096, 8192, 20480):
        small = {"kind": "shm", "shm_size": HEADER + data, "threshold": 0}
        out.append((small, [prod("blob", 3, 2, 30_000), prod("dict", 3, 40, 400, release="hold"), prod("plain", 5, 3, 10, release="hold"), prod("plain", 5, 3, 10), un("big", n=100_000, tag="b"), xchg("blob", [(1, 50_000), (1, 10)]), xchg("dict", [(40, 50)] * 3, release="hold"), un("raw_echo_bytes", data=b"k" * 50_000), rel_all]))
    # default threshold (128 KiB): only really big batches take the shm route
    dflt = {"kind": "shm", "shm_size": HEADER + (4 << 20), "threshold": None}
    out.append((dflt, [prod("blob", 3, 2, 100_000, release="hold"), prod("plain", 3, 5, 10), un("big", n=300_000, tag="c"), xchg("blob", [(2, 90_000), (1, 10)]), rel_all]))
    # table fills up with held batches -> later batches fall back inline
    out.append(({"kind": "shm", "shm_size": HEADER + (1 << 20), "threshold": 0}, [prod("plain", 8, 2, 20_000, release="hold") for _ in range(8)] + [prod("plain", 3, 2, 10), rel_all, prod("plain", 8, 2, 20_000)]))
    return out


def run_fixed(chk: Check) -> None:
    from lib import rig
    from vgi_rpc import shm as shm_mod

    H = hand()
    default_t = _DEFAULT_THRESHOLD[0]
    logs: list[Any] = []

    def on_log(msg: Any) -> None:
        logs.append(rig.norm_log(msg))

    for cfg, calls in fixed_histories():
        shm_mod.SHM_MIN_BATCH_BYTES = default_t
        with open_conn(H["HandSvc"], H["HandImpl"](), {"kind": "pipe"}, on_log) as (proxy, _seg, ct):
            ref = drive_history(None, proxy, None, ct, calls, {"kind": "pipe"}, logs)
        shm_mod.SHM_MIN_BATCH_BYTES = default_t if cfg["threshold"] is None else cfg["threshold"]
        try:
            with open_conn(H["HandSvc"], H["HandImpl"](), cfg, on_log) as (proxy, seg, ct):
                got = drive_history(chk, proxy, seg, ct, calls, cfg, logs)
        finally:
            shm_mod.SHM_MIN_BATCH_BYTES = default_t
        compare_traces(chk, "hand", calls, ref, got, cfg)
        chk.hit("fixed_history")


# ---------------------------------------------------------------------------
# shard entry / main
# ---------------------------------------------------------------------------

_DEFAULT_THRESHOLD = [128 * 1024]


def run_shard(job: dict[str, Any]) -> dict[str, Any]:
    import gc
    import logging

    from vgi_rpc import shm as shm_mod

    logging.getLogger("vgi_rpc").setLevel(logging.CRITICAL)
    chk = Check(PID, job["tier"], job["seed"])
    _DEFAULT_THRESHOLD[0] = int(shm_mod.SHM_MIN_BATCH_BYTES)
    install_wrappers()
    rng = random.Random(job["seed"])
    if job["kind"] == "fixed":
        run_fixed(chk)
    for i in range(job.get("hand", 0)):
        run_hand_case(chk, random.Random(rng.randrange(1 << 40)), 30)
        if i % 10 == 0:
            gc.collect()
    for i in range(job.get("svc", 0)):
        run_svc_case(chk, random.Random(rng.randrange(1 << 40)))
        if i % 10 == 0:
            gc.collect()
    for k, v in LEDGER.counts.items():
        chk.hit("ledger_" + k, v)
    return chk.to_result()


def main(tier: str, seed: int) -> int:
    chk = Check(PID, tier, seed, level=CATEGORY, rule=RULE)
    chk.require(
        "trace_compared",
        "trace_equal",
        "table_checked_after_call",
        "table_equals_held_set",
        "held_batch_reverified",
        "call_completed_while_batches_held",
        "ledger_routed_shm",
        "ledger_inline_below_threshold",
        "ledger_inline_no_fit",
        "ledger_resolved",
        "ledger_released",
        "fixed_history",
        "ledger_server_resolved_unary_request",
        "shm_route:producer_dict",
        "shm_route:producer_dict2",
        "shm_route:producer_nested",
        "shm_route:producer_zero",
        "shm_route:exchange_dict",
        "shm_route:exchange_zero",
        "shm_route:unary_big",
    )
    chk.assumptions = [
        "the in-process pipe transport is the reference for inline transfer",
        "vgi_rpc.shm.SHM_MIN_BATCH_BYTES is rebound per configuration; maybe_write_to_shm / resolve_shm_batch are rebound to recording wrappers in _wire/_client/_server",
        "requests through shm are produced by a raw writer in the check (the Python client always sends the request inline)",
        "stream-init errors are not generated (they desynchronise pipe transports, property C04)",
        "a client-side TransportError (e.g. second exchange input with another schema) ends the history unjudged",
    ]
    quick = tier == "quick"
    n = shard.ncpu()
    nshards = max(2, min(n, 16))
    hand_total = 90 if quick else 2400
    svc_total = 60 if quick else 1500
    jobs: list[dict[str, Any]] = [{"kind": "fixed", "tier": tier, "seed": seed}]
    for i in range(nshards):
        jobs.append({"kind": "gen", "tier": tier, "seed": seed * 100_003 + i + 1, "hand": hand_total // nshards + (1 if i < hand_total % nshards else 0), "svc": svc_total // nshards + (1 if i < svc_total % nshards else 0)})
    for res in shard.pmap("checks.c29", "run_shard", jobs, timeout=500 if quick else 2400):
        chk.merge(res)
    chk.exhaustive["generated_histories"] = False
    return chk.finish()

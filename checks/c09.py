"""C09 - the protocol-version gate admits exactly matching major.minor.

Raw requests (hand-written Arrow IPC, arbitrary bytes under ``vgi_rpc.protocol_version``)
are sent to generated services that declare a version from the grid {0,1,2,10}^3 (or none)

* over a real pipe pair (``RpcServer.serve`` on the other end): unary, stream init, ``__describe__``
* over HTTP through the WSGI callable (lib/httpdrv): ``/u``, ``/s/init``, ``/__describe__``

Two observation channels decide "dispatched": the implementation's invocation log and the
response (result / header vs EXCEPTION batch).  The oracle is lib/models/semver_gate.py,
written from the statement.  Refusals are checked for error kind, type, HTTP 400, both
version strings and the side to upgrade; pipe and HTTP answers are compared with each other.
"""

from __future__ import annotations

import random
import re
from typing import Any

from lib import shard
from lib.evidence import Check
from lib.models import semver_gate as model

PID = "C09"
ENGINE = "E2-raw-drivers+E5-models"
TECHNIQUE = "raw IPC/HTTP requests vs a reference semver gate; invocation log as dispatch witness"
LEVEL_TEXT = (
    "Exploration: for services declaring each version of the grid {0,1,2,10}^3 (and none), raw requests carrying "
    "canonical versions and a templated corpus of malformed values were sent over a pipe and over HTTP, for unary, "
    "stream init and __describe__; requests with a refusable version AND an unconvertible parameter are included; held means dispatch == reference gate and every refusal had the required "
    "kind/status/message on all executions counted (grid exhaustive in the thorough tier)."
)
LEVEL_NOTE = "reference gate written from the statement; 'side to upgrade' recognised by a tolerant phrase detector"
CATEGORY = "exploration"
RULE = (
    "case = (server version | undeclared, client metadata bytes, path in pipe|http x unary|stream|describe); "
    "distinct class = (path, relation of client value to server version: same / patch differs / minor differs / "
    "major differs / malformed category / absent, expected decision)"
)

GRID = [0, 1, 2, 10]
PV_KEY = b"vgi_rpc.protocol_version"
PATHS = ["pipe_unary", "pipe_stream", "http_unary", "http_stream"]

_FULLWIDTH = {ord(c): chr(0xFF10 + i) for i, c in enumerate("0123456789")}
_ARABIC = {ord(c): chr(0x0660 + i) for i, c in enumerate("0123456789")}
_DEVANAGARI = {ord(c): chr(0x0966 + i) for i, c in enumerate("0123456789")}


def _tail_translate(comp: str, table: dict[int, str]) -> str:
    """Translate every digit but the first (``10`` -> ``1<U+FF10>``)."""
    return comp[0] + comp[1:].translate(table)


def malformed_corpus(ver: tuple[int, int, int]) -> list[tuple[str, bytes | None]]:
    """(category, value) pairs built around *ver* so that a sloppy parser would see a match."""
    M, m, p = (str(x) for x in ver)
    s = f"{M}.{m}.{p}"
    out: list[tuple[str, bytes | None]] = [("absent", None)]

    def add(cat: str, v: str | bytes) -> None:
        out.append((cat, v if isinstance(v, bytes) else v.encode("utf-8")))

    add("empty", "")
    add("prerelease", s + "-rc1")
    add("prerelease", s + "-0")
    add("build", s + "+build3")
    add("prerelease_build", s + "-rc1+b")
    add("leading_zero", f"0{M}.{m}.{p}")
    add("leading_zero", f"{M}.0{m}.{p}")
    add("leading_zero", f"{M}.{m}.0{p}")
    add("leading_zero", f"00{M}.{m}.{p}")
    add("whitespace_leading", " " + s)
    add("whitespace_leading", "\n" + s)
    add("whitespace_leading", "\t" + s)
    add("whitespace_trailing_space", s + " ")
    add("trailing_newline", s + "\n")
    add("whitespace_trailing_other", s + "\r\n")
    add("whitespace_trailing_other", s + "\r")
    add("whitespace_trailing_other", s + "\t")
    add("whitespace_trailing_other", s + "\n\n")
    add("whitespace_trailing_other", s + "\x0b")
    add("whitespace_trailing_other", s + "\x0c")
    add("whitespace_trailing_other", s + "\u00a0")
    add("whitespace_trailing_other", s + "\u2028")
    add("whitespace_trailing_other", s + "\u0085")
    add("whitespace_inner", f"{M}. {m}.{p}")
    add("whitespace_inner", f"{M} .{m}.{p}")
    add("whitespace_inner", f"{M}.{m}\n.{p}")
    add("nul", s + "\x00")
    add("nul", "\x00" + s)
    add("prefix_v", "v" + s)
    add("prefix_v", "V" + s)
    add("prefix_v", "=" + s)
    add("too_few_parts", f"{M}.{m}")
    add("too_few_parts", M)
    add("too_few_parts", f"{M}.{m}.")
    add("too_few_parts", f"{M}..{p}")
    add("too_many_parts", s + ".0")
    add("too_many_parts", "." + s)
    add("too_many_parts", s + ".")
    add("sign", "+" + s)
    add("sign", "-" + s)
    add("sign", f"{M}.-{m}.{p}")
    add("sign", f"{M}.+{m}.{p}")
    add("non_decimal", f"{M}.{m}.x")
    add("non_decimal", f"{M}e0.{m}.{p}")
    add("non_decimal", f"0x{M}.{m}.{p}")
    add("non_decimal", f"{M}.{m}.{p}_")
    add("non_decimal", f"{M}_0.{m}.{p}")
    add("non_decimal", f"{M}.{m}.{p}.")
    add("separator", f"{M},{m},{p}")
    add("separator", f"{M}\u3002{m}\u3002{p}")
    add("separator", f"{M}/{m}/{p}")
    for name, table in (("fullwidth", _FULLWIDTH), ("arabic_indic", _ARABIC), ("devanagari", _DEVANAGARI)):
        add("unicode_digits_all", s.translate(table))
        add("unicode_digits_tail", ".".join(_tail_translate(c, table) for c in (M, m, p)))
        # a version whose *numeric* reading matches although one digit is not ASCII
        add("unicode_digits_tail", f"{M}.{m}.1{'0'.translate(table)}")
        del name
    add("unicode_digits_all", f"{M}.{m}.\u00b2")
    add("bom", "\ufeff" + s)
    out.append(("non_utf8", b"\xff\xfe"))
    out.append(("non_utf8", s.encode() + b"\xff"))
    out.append(("non_utf8", b"\xc0\xaf" + s.encode()))
    out.append(("non_utf8", s.encode("utf-16")))
    out.append(("utf16le_nuls", s.encode("utf-16-le")))
    # drop entries that the reference model calls canonical (e.g. tail translation of one-digit parts)
    keep = []
    seen = set()
    for cat, v in out:
        if v is not None and model.classify_client(v)[0] == "canonical":
            continue
        if (cat, v) in seen:
            continue
        seen.add((cat, v))
        keep.append((cat, v))
    return keep


def fuzz_values(ver: tuple[int, int, int], rng: random.Random, n: int) -> list[tuple[str, bytes | None]]:
    """Random single/double edits of the canonical string (thorough tier)."""
    s = ".".join(str(x) for x in ver)
    alphabet = "0123456789.-+ \n\t\r\x00vV_eExX,\u0660\uff11\u00a0\u2028/"
    out: list[tuple[str, bytes | None]] = []
    for _ in range(n):
        chars = list(s)
        for _ in range(rng.choice([1, 1, 2])):
            op = rng.choice(["ins", "del", "rep"])
            pos = rng.randrange(len(chars) + 1)
            if op == "ins" or not chars:
                chars.insert(pos, rng.choice(alphabet))
            elif op == "del":
                del chars[min(pos, len(chars) - 1)]
            else:
                chars[min(pos, len(chars) - 1)] = rng.choice(alphabet)
        v = "".join(chars).encode("utf-8")
        kind, parsed = model.classify_client(v)
        if kind == "canonical":
            out.append(("fuzz_canonical", v))
        else:
            out.append((categorize("".join(chars)), v))
    return out


def categorize(s: str) -> str:
    """Mechanism category of a fuzzed malformed string (so violation keys stay stable)."""
    if s.endswith("\n") and model.parse_canonical(s[:-1]) is not None:
        return "trailing_newline"
    if any(ord(c) > 127 and c.isdigit() for c in s):
        return "unicode_digits_fuzzed"
    parts = s.split(".")
    if len(parts) == 3 and all(p and all(c in model.DIGITS for c in p) for p in parts):
        return "leading_zero"
    if s != s.strip():
        return "whitespace_fuzzed"
    return "fuzz_other"


def relation(server: tuple[int, int, int], client: tuple[int, int, int]) -> str:
    if client == server:
        return "same"
    if client[:2] == server[:2]:
        return "patch_differs"
    if client[0] == server[0]:
        return "minor_differs"
    return "major_differs"


_SIDE_WORDS = {"client": "client", "extension": "client", "server": "server", "worker": "server"}
_RE_OLD = re.compile(r"\b(client|server|worker|extension)\b[^.\n;]{0,40}?\b(too old|older|outdated|out of date|behind)\b")
_RE_UPGRADE = re.compile(r"\bupgrade\b[^.\n;]{0,12}?\b(?:the |your )?(?:vgi )?(?:extension/)?(client|server|worker|extension)\b")


def sides_named(message: str) -> set[str]:
    low = message.lower()
    sides = set()
    for m in _RE_OLD.finditer(low):
        sides.add(_SIDE_WORDS[m.group(1)])
    for m in _RE_UPGRADE.finditer(low):
        sides.add(_SIDE_WORDS[m.group(1)])
    return sides


# ---------------------------------------------------------------------------
# shard
# ---------------------------------------------------------------------------


def _program(version: str | None) -> dict[str, Any]:
    prog: dict[str, Any] = {
        "name": "VerSvc",
        "methods": [
            {"name": "u", "kind": "unary", "params": [("a", ("int",))], "ret": ("int",), "u": {"logs": [], "act": ("echo", "a")}},
            # methods taking an enum: a newer client may send a member this server cannot convert
            {"name": "ue", "kind": "unary", "params": [("c", ("enum", "Color"))], "ret": ("int",), "u": {"logs": [], "act": ("return", 1)}},
            {"name": "se", "kind": "producer", "params": [("c", ("enum", "Color"))], "header": False, "out_cols": ["i"], "init": {"logs": [], "act": ("ok",)}, "steps": [{"logs": [], "act": "emit_finish"}]},
            {
                "name": "s",
                "kind": "producer",
                "params": [],
                "header": True,
                "out_cols": ["i"],
                "init": {"logs": [], "act": ("ok",)},
                "steps": [{"logs": [], "act": "emit_finish"}],
            },
        ],
        "calls": [],
    }
    if version is not None:
        prog["version"] = version
    return prog


class _Obs:
    """One observed answer on one path."""

    __slots__ = ("dispatched", "err", "status", "ok_shape", "raw")

    def __init__(self, dispatched: bool, err: dict[str, Any] | None, status: int | None, ok_shape: bool, raw: Any = None) -> None:
        self.dispatched = dispatched
        self.err = err
        self.status = status
        self.ok_shape = ok_shape
        self.raw = raw


def run_shard(job: dict[str, Any]) -> dict[str, Any]:
    import threading
    import warnings

    import pyarrow as pa
    from pyarrow import ipc

    from lib import httpdrv, svcgen
    from vgi_rpc.http.server import make_wsgi_app
    from vgi_rpc.rpc import RpcServer, make_pipe_pair, make_unix_pair, rpc_methods

    warnings.simplefilter("ignore")
    chk = Check(PID, job["tier"], job["seed"])
    rng = random.Random(job["seed"])
    tier = job["tier"]
    EMPTY = pa.schema([])
    HDRS = {"Content-Type": httpdrv.ARROW_CT}

    def read_stream(f: Any) -> tuple[pa.Schema, list[tuple[pa.RecordBatch, dict[str, bytes]]]]:
        r = ipc.open_stream(f)
        out = []
        while True:
            try:
                b, md = r.read_next_batch_with_custom_metadata()
            except StopIteration:
                break
            out.append((b, {k.decode(): v for k, v in (md or {}).items()}))
        return r.schema, out

    def serve_quiet(server: Any, tr: Any, box: dict[str, Any]) -> None:
        try:
            server.serve(tr)
        except Exception as exc:  # noqa: BLE001
            box["died"] = repr(exc)

    def one_server(version: str | None, clients: list[tuple[str, bytes | None]], sock_kind: str) -> None:
        proto, impl = svcgen.build(_program(version))
        server = RpcServer(proto, impl, enable_describe=True)
        infos = rpc_methods(proto)
        u_schema, s_schema = infos["u"].params_schema, infos["s"].params_schema
        app = make_wsgi_app(server)
        ct, st = make_pipe_pair() if sock_kind == "pipe" else make_unix_pair()
        box: dict[str, Any] = {}
        th = threading.Thread(target=serve_quiet, args=(server, st, box), daemon=True)
        th.start()
        sver = None if version is None else model.parse_canonical(version)

        def ninv() -> int:
            return sum(1 for e in impl.inv if e[0] in ("unary", "init"))

        def md_of(v: bytes | None) -> dict[bytes, bytes]:
            return {} if v is None else {PV_KEY: v}

        def pipe_unary(v: bytes | None) -> _Obs:
            n0 = ninv()
            ct.writer.write(httpdrv.request_body("u", u_schema, {"a": 5}, extra_md=md_of(v)))
            _sch, bs = read_stream(ct.reader)
            err = httpdrv.error_of(bs)
            ok = err is None and len(bs) == 1 and bs[0][0].num_rows == 1 and bs[0][0].column(0)[0].as_py() == 5
            return _Obs(ninv() > n0, err, None, ok)

        def pipe_stream(v: bytes | None) -> _Obs:
            n0 = ninv()
            ct.writer.write(httpdrv.request_body("s", s_schema, {}, extra_md=md_of(v)))
            _sch, bs = read_stream(ct.reader)  # header stream or error stream
            err = httpdrv.error_of(bs)
            ok = False
            if err is None:
                ok = len(bs) == 1 and bs[0][0].num_rows == 1
                # admitted: close the input side cleanly and drain the output stream
                with ipc.new_stream(ct.writer, EMPTY):
                    pass
                read_stream(ct.reader)
            return _Obs(ninv() > n0, err, None, ok)

        def pipe_describe(v: bytes | None) -> _Obs:
            ct.writer.write(httpdrv.request_body("__describe__", EMPTY, None, extra_md=md_of(v)))
            _sch, bs = read_stream(ct.reader)
            err = httpdrv.error_of(bs)
            ok = err is None and len(bs) == 1 and "vgi_rpc.protocol_name" in bs[0][1]
            return _Obs(ok, err, None, ok)

        def http_unary(v: bytes | None) -> _Obs:
            n0 = ninv()
            r = httpdrv.call(app, "POST", "/u", HDRS, httpdrv.request_body("u", u_schema, {"a": 5}, extra_md=md_of(v)))
            try:
                bs = httpdrv.parse_ipc(r.decoded_body())
            except Exception:  # noqa: BLE001
                return _Obs(ninv() > n0, None, r.status, False, raw=r.body[:200])
            err = httpdrv.error_of(bs)
            ok = err is None and r.status == 200 and len(bs) == 1 and bs[0][0].num_rows == 1
            return _Obs(ninv() > n0, err, r.status, ok)

        def http_stream(v: bytes | None) -> _Obs:
            n0 = ninv()
            r = httpdrv.call(app, "POST", "/s/init", HDRS, httpdrv.request_body("s", s_schema, {}, extra_md=md_of(v)))
            try:
                streams = httpdrv.parse_ipc_multi(r.decoded_body())
            except Exception:  # noqa: BLE001
                return _Obs(ninv() > n0, None, r.status, False, raw=r.body[:200])
            err = None
            for bs in streams:
                err = err or httpdrv.error_of(bs)
            ok = err is None and r.status == 200 and len(streams) == 2
            return _Obs(ninv() > n0, err, r.status, ok)

        def http_describe(v: bytes | None) -> _Obs:
            r = httpdrv.call(app, "POST", "/__describe__", HDRS, httpdrv.request_body("__describe__", EMPTY, None, extra_md=md_of(v)))
            try:
                bs = httpdrv.parse_ipc(r.decoded_body())
            except Exception:  # noqa: BLE001
                return _Obs(False, None, r.status, False, raw=r.body[:200])
            err = httpdrv.error_of(bs)
            ok = err is None and r.status == 200 and len(bs) == 1 and "vgi_rpc.protocol_name" in bs[0][1]
            return _Obs(ok, err, r.status, ok)

        drivers = {"pipe_unary": pipe_unary, "pipe_stream": pipe_stream, "http_unary": http_unary, "http_stream": http_stream}
        ue_schema, se_schema = infos["ue"].params_schema, infos["se"].params_schema

        def badparam(path: str, v: bytes | None) -> _Obs:
            """A request that is wrong twice: the version under test AND an enum member the server does not know."""
            n0 = ninv()
            meth, sch = ("ue", ue_schema) if path.endswith("unary") else ("se", se_schema)
            body_ = httpdrv.request_body(meth, sch, {"c": "NO_SUCH_MEMBER"}, extra_md=md_of(v))
            if path.startswith("pipe"):
                ct.writer.write(body_)
                if meth == "se":  # header-less stream: the client's input stream follows the request
                    with ipc.new_stream(ct.writer, EMPTY):
                        pass
                _sch, bs = read_stream(ct.reader)
                return _Obs(ninv() > n0, httpdrv.error_of(bs), None, False)
            r = httpdrv.call(app, "POST", "/ue" if meth == "ue" else "/se/init", HDRS, body_)
            try:
                err = None
                for bs in httpdrv.parse_ipc_multi(r.decoded_body()):
                    err = err or httpdrv.error_of(bs)
            except Exception:  # noqa: BLE001
                return _Obs(ninv() > n0, None, r.status, False, raw=r.body[:200])
            return _Obs(ninv() > n0, err, r.status, False)

        def witness(cat: str, v: bytes | None, extra: dict[str, Any] | None = None) -> dict[str, Any]:
            w = {"server_version": version, "client_value": v, "category": cat, "socket": sock_kind}
            if extra:
                w.update(extra)
            return w

        def body() -> None:
            for idx, (cat, v) in enumerate(clients):
                kind, cparsed = model.classify_client(v)
                if version is None:
                    rel = "undeclared"
                elif kind == "canonical" and sver is not None and cparsed is not None:
                    rel = relation(sver, cparsed)
                else:
                    rel = cat
                obs: dict[str, _Obs] = {}
                for path in PATHS:
                    expect = model.admits(version, v, "u" if path.endswith("unary") else "s")
                    o = drivers[path](v)
                    obs[path] = o
                    chk.case(f"{path}:{rel}:{'admit' if expect else 'refuse'}")
                    chk.hit("dispatch_decision_" + path.split("_")[0])
                    if version is None:
                        chk.hit("undeclared_never_checks")
                # ---- decision vs model, aggregated over the four paths ---------------
                wrong_admit = []
                wrong_refuse = []
                for path, o in obs.items():
                    expect = model.admits(version, v, "x")
                    if o.dispatched and o.err is not None:
                        chk.violation(
                            f"dispatched_and_refused:{path}",
                            "the implementation was invoked although an error was returned for the version gate",
                            witness(cat, v, {"error": o.err and o.err["message"][:200]}),
                        )
                    if not o.dispatched and o.err is None:
                        chk.violation(
                            f"no_dispatch_no_error:{path}",
                            "neither an invocation nor an error was observed",
                            witness(cat, v, {"status": o.status, "raw": o.raw}),
                        )
                    if expect and not o.dispatched:
                        wrong_refuse.append(path)
                    if not expect and o.dispatched:
                        wrong_admit.append(path)
                    if expect and o.dispatched and not o.ok_shape:
                        chk.violation(f"admitted_but_bad_response:{path}", "call dispatched but the response is not the expected result/header", witness(cat, v, {"status": o.status}))

                def where(paths: list[str]) -> str:
                    return "all_paths" if len(paths) == len(PATHS) else "+".join(paths)

                if not model.admits(version, v, "x"):
                    for path in PATHS:
                        refusable[path] += 1
                    if wrong_admit:
                        for path in wrong_admit:
                            admitted_wrongly[path] += 1
                        if kind == "canonical":
                            mech = f"canonical_mismatch_admitted:{rel}"
                        else:
                            mech = "malformed_admitted:" + ("unicode_digits" if cat.startswith("unicode_digits") else cat)
                        pending_admits.append((mech, list(wrong_admit), witness(cat, v, {"paths": list(wrong_admit)})))
                if wrong_refuse:
                    if version is None:
                        key = f"undeclared_service_checked@{where(wrong_refuse)}"
                    else:
                        key = f"canonical_match_refused:{rel}@{where(wrong_refuse)}"
                    first = obs[wrong_refuse[0]]
                    chk.violation(
                        key,
                        "call refused although the reference gate admits it",
                        witness(cat, v, {"paths": wrong_refuse, "error": first.err and first.err["message"][:300], "status": first.status}),
                    )
                # ---- a refusable version together with an unconvertible parameter: still the version refusal ----
                if version is not None and not model.admits(version, v, "x") and idx % 3 == 0:
                    for path in PATHS:
                        o = badparam(path, v)
                        chk.hit("refusable_version_with_bad_parameter_judged")
                        chk.case(f"{path}:{rel}:refuse:with_unconvertible_parameter")
                        err = o.err or {}
                        if o.dispatched:
                            chk.violation(f"dispatched_nonmatching_version:with_bad_parameter:{path}", "the method ran for a refusable version", witness(cat, v, {"path": path}))
                        elif err.get("kind") != "protocol_version_mismatch" or (path.startswith("http") and o.status != 400):
                            chk.violation(
                                f"version_refusal_masked_by_parameter_error:{path.split('_')[0]}",
                                "a request with a refusable protocol version and an unconvertible parameter was not answered with the protocol_version_mismatch refusal",
                                witness(cat, v, {"path": path, "status": o.status, "type": err.get("type"), "kind": err.get("kind"), "message": (err.get("message") or "")[:200]}),
                            )
                # ---- refusal quality --------------------------------------------------------
                refusals = {p: o for p, o in obs.items() if o.err is not None and not o.dispatched and not model.admits(version, v, "x")}
                for path, o in refusals.items():
                    chk.hit("refusal_judged")
                    err = o.err or {}
                    if err.get("kind") != "protocol_version_mismatch":
                        chk.violation("refusal_wrong_kind", "refusal does not carry error kind protocol_version_mismatch", witness(cat, v, {"path": path, "kind": err.get("kind"), "type": err.get("type")}))
                    if err.get("type") != "ProtocolVersionError":
                        chk.violation("refusal_wrong_type", "refusal is not a ProtocolVersionError", witness(cat, v, {"path": path, "type": err.get("type")}))
                    if path.startswith("http") and o.status != 400:
                        chk.violation(f"refusal_http_status:{o.status}", "HTTP refusal is not status 400", witness(cat, v, {"path": path}))
                    msg = err.get("message", "")
                    if version is not None and version not in msg:
                        chk.violation("refusal_message_lacks_server_version", "refusal message does not name the server version", witness(cat, v, {"message": msg[:400]}))
                    if kind in ("canonical", "malformed") and v is not None:
                        chk.hit("message_client_version_checked")
                        if v.decode("utf-8") not in msg:
                            chk.violation("refusal_message_lacks_client_version", "refusal message does not name the client version", witness(cat, v, {"message": msg[:400]}))
                    else:
                        chk.skip("client_version_unnameable(absent/non-utf8)")
                    side = model.side_to_upgrade(version, v) if version is not None else None
                    if side is None:
                        chk.skip("direction_undefined_for_malformed_or_absent")
                    else:
                        chk.hit("direction_checked")
                        named = sides_named(msg)
                        if not named:
                            chk.violation("refusal_message_no_direction", "refusal message does not say which side to upgrade", witness(cat, v, {"message": msg[:400]}))
                        elif named != {side}:
                            chk.violation(
                                "refusal_message_wrong_direction",
                                "refusal message names the wrong side to upgrade",
                                witness(cat, v, {"message": msg[:400], "expected_side": side, "named": sorted(named)}),
                            )
                # ---- socket vs HTTP ---------------------------------------------------------
                for a, b in (("pipe_unary", "http_unary"), ("pipe_stream", "http_stream")):
                    oa, ob = obs[a], obs[b]
                    chk.hit("socket_http_compared")
                    if oa.dispatched != ob.dispatched:
                        chk.violation(f"socket_http_disagree:decision:{a.split('_')[1]}", "pipe and HTTP decide differently for the same request", witness(cat, v, {"pipe": oa.dispatched, "http": ob.dispatched}))
                    elif oa.err is not None and ob.err is not None:
                        for fld in ("kind", "type", "message"):
                            if oa.err.get(fld) != ob.err.get(fld):
                                chk.violation(
                                    f"socket_http_disagree:{fld}",
                                    "pipe and HTTP refuse with different error " + fld,
                                    witness(cat, v, {"pipe": str(oa.err.get(fld))[:300], "http": str(ob.err.get(fld))[:300]}),
                                )
                # ---- __describe__ is exempt --------------------------------------------
                if idx % job.get("describe_every", 3) == 0 or not model.admits(version, v, "u"):
                    for path, drv in (("pipe", pipe_describe), ("http", http_describe)):
                        o = drv(v)
                        chk.case(f"{path}_describe:{rel}:admit")
                        chk.hit("describe_exempt")
                        if not o.ok_shape:
                            chk.violation(f"describe_refused:{path}", "__describe__ was not answered although introspection is exempt from the gate", witness(cat, v, {"error": o.err and o.err["message"][:300], "status": o.status}))
                if rng.random() < 0.002:
                    chk.sample({"server": version, "client": v, "category": cat, "relation": rel, "dispatched": {p: o.dispatched for p, o in obs.items()}})

        refusable = dict.fromkeys(PATHS, 0)
        admitted_wrongly = dict.fromkeys(PATHS, 0)
        pending_admits: list[tuple[str, list[str], dict[str, Any]]] = []
        worker = threading.Thread(target=body, daemon=True)
        worker.start()
        worker.join(timeout=120 if tier == "quick" else 600)
        if worker.is_alive():
            chk.inconclusive_because(f"watchdog: raw exchange with server {version} did not finish (serve thread: {box.get('died', 'alive')})")
            return
        # a path that admitted *every* refusable value has no gate at all: one mechanism, one key
        ungated = [p for p in PATHS if refusable[p] >= 10 and admitted_wrongly[p] == refusable[p]]
        for p in ungated:
            chk.violation(f"gate_not_enforced@{p}", "every value the reference gate refuses was dispatched on this path", {"server_version": version, "refusable_values": refusable[p]})
        for mech, paths, wit in pending_admits:
            rest = [p for p in paths if p not in ungated]
            if rest:
                where = "all_paths" if len(rest) == len(PATHS) else "+".join(rest)
                chk.violation(f"{mech}@{where}", "call dispatched although the reference gate refuses this client version value", wit)
        try:
            ct.close()
        except Exception:  # noqa: BLE001
            pass
        th.join(timeout=5)
        try:
            st.close()
        except Exception:  # noqa: BLE001
            pass
        if "died" in box:
            chk.violation("serve_thread_died", "serve() raised while handling version-gate traffic", {"server_version": version, "exc": box["died"]})

    grid_versions = [(a, b, c) for a in GRID for b in GRID for c in GRID]
    extra_canon = [b"99999999999999999999.0.0", b"1.2.18446744073709551616", b"0.0.4294967296", b"3.7.11"]
    for sv in job["servers"]:
        version = None if sv is None else ".".join(str(x) for x in sv)
        base = tuple(sv) if sv is not None else (1, 2, 3)
        clients: list[tuple[str, bytes | None]] = []
        if tier == "thorough" or sv is None:
            canon = list(grid_versions)
        else:
            canon = [g for g in grid_versions if g[0] == base[0]]
            others = [g for g in grid_versions if g[0] != base[0]]
            canon += rng.sample(others, 10)
        clients += [("canonical", ".".join(str(x) for x in g).encode()) for g in canon]
        clients += [("canonical_big", v) for v in extra_canon]
        clients += malformed_corpus(base)  # type: ignore[arg-type]
        if tier == "thorough":
            clients += fuzz_values(base, rng, job.get("fuzz", 150))  # type: ignore[arg-type]
        elif sv is not None:
            clients += fuzz_values(base, rng, 12)  # type: ignore[arg-type]
        if sv is None:
            clients = rng.sample(clients, min(len(clients), 60 if tier == "quick" else 200))
        sock_kind = "unix" if (sv is not None and sum(sv) % 5 == 0) else "pipe"
        one_server(version, clients, sock_kind)
    return chk.to_result()


def main(tier: str, seed: int) -> int:
    chk = Check(PID, tier, seed, level=CATEGORY, rule=RULE)
    chk.require(
        "dispatch_decision_pipe",
        "dispatch_decision_http",
        "refusal_judged",
        "direction_checked",
        "message_client_version_checked",
        "socket_http_compared",
        "describe_exempt",
        "undeclared_never_checks",
        "refusable_version_with_bad_parameter_judged",
    )
    chk.assumptions = [
        "reference gate lib/models/semver_gate.py (ASCII digits, no leading zeros, nothing around MAJOR.MINOR.PATCH)",
        "the side to upgrade is recognised by phrases '<side> ... too old/older/outdated' or 'upgrade ... <side>' (client=client/extension, server=server/worker)",
        "message must contain the client value verbatim only when it decodes as UTF-8; direction only judged for two canonical versions",
        "stream init is observed through a header-declaring producer so the raw client can tell header from error without guessing",
    ]
    servers: list[Any] = [[a, b, c] for a in GRID for b in GRID for c in GRID]
    rng = random.Random(seed)
    rng.shuffle(servers)
    servers.append(None)
    n = shard.ncpu()
    nsh = min(len(servers), n * (2 if tier == "quick" else 4))
    jobs = [{"tier": tier, "seed": seed * 1009 + i + 1, "servers": part, "fuzz": 500} for i, part in enumerate(shard.split(servers, nsh))]
    for res in shard.pmap("checks.c09", "run_shard", jobs, timeout=400 if tier == "quick" else 2400):
        chk.merge(res)
    chk.exhaustive["server_grid_{0,1,2,10}^3"] = True
    chk.exhaustive["client_grid_{0,1,2,10}^3"] = tier == "thorough"
    chk.exhaustive["malformed_corpus"] = False
    return chk.finish()

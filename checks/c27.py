"""C27 - sticky lifecycle: opt-in, drain, and client token tracking.

A sticky-enabled WSGI app is driven by the real client (``http_connect`` over the
in-process test client) inside ``with conn.with_session_token() as view``.  One service
method ``run(ops)`` executes a script of session operations *inside one request*
(open / close / use / noop in any order, e.g. close-then-open, open-then-close).
After every response the harness compares the client's view with the registry the
server keeps:

* the view's token is None  <=>  the registry holds no live session of this client;
  a non-None token must resolve (``_open_session_token``) to the one live entry
  (no orphaned live session, no stale token);
* leaving the ``with`` block leaves no live session behind (best-effort DELETE);
* a request without ``VGI-Session-Accept`` never opens a session;
* while draining, opens fail with error kind ``server_draining`` and existing
  sessions keep serving.
"""

from __future__ import annotations

import itertools
import random
from typing import Any

from lib import shard
from lib.evidence import Check

PID = "C27"
ENGINE = "E1-svcgen-rig+E2-raw-drivers"
TECHNIQUE = "history enumeration through the real client; registry-vs-client-view invariant checked after every response"
LEVEL_TEXT = (
    "Exploration: all in-request operation scripts of length <= 3 over {open, close, use, noop} as single requests and "
    "in ordered pairs (thorough: plus sampled triples), with and without the opt-in, before and during drain. Held = after "
    "every response the client's view token and the server's registry agreed, and no session was opened without opt-in or while draining."
)
LEVEL_NOTE = "in-process WSGI test client; the registry is read directly (_SessionRegistry._entries) and tokens are opened with the repo's _open_session_token as a tool"
RULE = "case = (mode, sequence of per-request op scripts); class = (mode, op scripts); non-trivial = at least one open or close"

OPS = ["open", "close", "use", "noop"]


def _all_scripts(maxlen: int) -> list[tuple[str, ...]]:
    out: list[tuple[str, ...]] = []
    for n in range(1, maxlen + 1):
        out.extend(itertools.product(OPS, repeat=n))
    return out


class _Harness:
    def __init__(self) -> None:
        import warnings
        from typing import Protocol

        from vgi_rpc.http import http_connect, make_wsgi_app
        from vgi_rpc.http._testing import _SyncTestClient
        from vgi_rpc.http.server import _sticky
        from vgi_rpc.rpc import CallContext, RpcServer

        self.sticky = _sticky
        # thousands of apps are built per run: do not start a reaper thread for each
        _sticky._StickyMiddleware._ensure_reaper = lambda self: None  # type: ignore[method-assign]
        harness = self

        class State:
            n = 0

            def __init__(self) -> None:
                State.n += 1
                self.name = f"S{State.n}"
                self.closed = 0

            def close(self) -> None:
                self.closed += 1
                harness.closed_states.append(self.name)

        class Svc(Protocol):
            def run(self, ops: str) -> str: ...

        class Impl:
            def run(self, ops: str, ctx: CallContext = None) -> str:  # type: ignore[assignment]
                seen = []
                for op in [o for o in ops.split(",") if o]:
                    if op == "open":
                        ctx.open_session(State())
                        seen.append("opened")
                    elif op == "close":
                        ctx.close_session()
                        seen.append("closed")
                    elif op == "use":
                        s = ctx.session
                        seen.append("none" if s is None else s.name)
                    else:
                        seen.append("noop")
                    harness.dispatched.append(op)
                return ",".join(seen)

        self.Svc = Svc
        self.closed_states: list[str] = []
        self.dispatched: list[str] = []
        with warnings.catch_warnings():
            warnings.simplefilter("ignore")
            self.app = make_wsgi_app(RpcServer(Svc, Impl()), token_key=b"k" * 32, enable_sticky=True, sticky_default_ttl=300.0)
        self.registry = None
        for group in getattr(self.app, "_middleware", ()):
            for bm in group:
                owner = getattr(bm, "__self__", None)
                if isinstance(owner, _sticky._StickyMiddleware):
                    self.registry = owner._registry
        self.client = _SyncTestClient(self.app)
        self.http_connect = http_connect
        self.handle = _sticky.drain_handle(self.app)

    def live_ids(self) -> set[bytes]:
        return set(self.registry._entries.keys())

    def token_session_id(self, token: str) -> bytes | None:
        from vgi_rpc.http.server._state_token import _compute_aad

        try:
            _sid, session_id, _exp = self.sticky._open_session_token(token, b"k" * 32, _compute_aad(None))
            return session_id
        except Exception:  # noqa: BLE001
            return None


def _check_view(chk: Check, h: _Harness, view: Any, req: tuple[str, ...], wit: dict[str, Any]) -> bool:
    """Compare the client's view with the registry; returns False after reporting a violation."""
    live = h.live_ids()
    tok = view.current_session_token()
    chk.hit("view_compared")
    opens_closes = [o for o in req if o in ("open", "close")]
    if "close" in opens_closes and "open" in opens_closes[opens_closes.index("close") :]:
        cause = "request_closed_then_opened"
    elif opens_closes[-1:] == ["close"] and "open" in opens_closes:
        cause = "request_opened_then_closed"
    elif "open" in opens_closes:
        cause = "request_opened"
    elif "close" in opens_closes:
        cause = "request_closed"
    else:
        cause = "request_without_open_or_close"
    if tok is None:
        if live:
            chk.violation(f"live_session_orphaned_by_client:{cause}", "the registry keeps a live session but the client's view holds no token", {**wit, "live": len(live)})
            return False
    else:
        sid = h.token_session_id(tok)
        if sid is None or sid not in live:
            chk.violation(f"client_holds_stale_token:{cause}", "the client's view holds a token that resolves to no live session", {**wit, "live": len(live)})
            return False
        if len(live) != 1:
            chk.violation(f"extra_live_sessions:{cause}", "more than one live session for a single client", {**wit, "live": len(live)})
            return False
    return True


def _shape_of(req_ops: tuple[str, ...]) -> str:
    """Mechanism-level description of one request's op script (order of opens/closes only)."""
    return ">".join(o for o in req_ops if o in ("open", "close")) or "none"


def run_shard(job: dict[str, Any]) -> dict[str, Any]:
    import pyarrow as pa

    from lib import httpdrv
    from vgi_rpc.rpc import RpcError

    chk = Check(PID, job["tier"], job["seed"])
    schema = pa.schema([pa.field("ops", pa.string(), nullable=False)])
    for hist in job["histories"]:
        mode = hist["mode"]
        reqs = [tuple(r) for r in hist["reqs"]]
        cls = f"{mode}|" + "/".join(",".join(r) for r in reqs)
        h = _Harness()
        wit = {"mode": mode, "requests": reqs}
        chk.case(cls)
        if mode == "view":
            ok = True
            with h.http_connect(h.Svc, client=h.client) as conn:
                with conn.with_session_token() as view:
                    for i, r in enumerate(reqs):
                        try:
                            res = view.run(ops=",".join(r))
                            chk.hit("request_ok")
                        except RpcError as e:
                            res = f"error:{e.error_type}"
                            chk.hit("request_error")
                        ok = _check_view(chk, h, view, r, {**wit, "index": i, "result": res})
                        if not ok:
                            break  # what follows in this history is a consequence of the first divergence
                    marked_closed, holds_token = view._closed, view.current_session_token() is not None
                # left the block
                if ok:
                    if h.live_ids():
                        cause = "view_marked_closed_by_an_earlier_close" if (marked_closed and holds_token) else "other"
                        chk.violation(f"session_left_live_after_block_exit:{cause}", "a live session remained after the with-block exited", wit)
                    else:
                        chk.hit("block_exit_clean")
            for name in set(h.closed_states):
                if h.closed_states.count(name) != 1:
                    chk.violation("state_closed_more_than_once", f"{name} closed {h.closed_states.count(name)}x", wit)
        elif mode == "no_optin":
            # plain proxy (no VGI-Session-Accept): a method that tries to open must fail and nothing may be registered
            with h.http_connect(h.Svc, client=h.client) as conn:
                for r in reqs:
                    try:
                        conn.run(ops=",".join(r))
                    except RpcError:
                        pass
                    if h.live_ids():
                        chk.violation("session_opened_without_optin:typed_client", "a session was registered for a request that did not carry VGI-Session-Accept", wit)
                    chk.hit("no_optin_checked")
            # raw request with the header spelled wrongly / false
            for hv in (None, "false", "1", "yes", "TRUE "):
                hd = {"Content-Type": httpdrv.ARROW_CT}
                if hv is not None:
                    hd["VGI-Session-Accept"] = hv
                before = len(h.live_ids())
                resp = httpdrv.call(h.app, "POST", "/run", hd, httpdrv.request_body("run", schema, {"ops": "open"}))
                opened = len(h.live_ids()) > before
                accepted = (hv or "").strip().lower() == "true"
                chk.hit("raw_optin_checked")
                if opened and not accepted:
                    chk.violation("session_opened_without_optin:raw", f"VGI-Session-Accept={hv!r} opened a session", {**wit, "status": resp.status})
                if opened and not resp.header("VGI-Session"):
                    chk.violation("session_opened_without_token_header", "a session was registered but no VGI-Session header returned", wit)
                h.registry.shutdown()
        elif mode == "drain":
            with h.http_connect(h.Svc, client=h.client) as conn:
                with conn.with_session_token() as view:
                    view.run(ops="open")
                    tok = view.current_session_token()
                    live_before = h.live_ids()
                    h.handle.drain()
                    # existing session keeps serving
                    # first the scripts as they are (an open while draining must fail, and whatever the
                    # request closed before that must be reflected in the client's view) ...
                    if "open" in reqs[0]:
                        try:
                            view.run(ops=",".join(reqs[0]))
                            chk.hit("drain_request_with_open_ok")
                        except RpcError:
                            chk.hit("drain_request_with_open_failed")
                        _check_view(chk, h, view, reqs[0], {**wit, "phase": "open_while_draining"})
                        if not h.live_ids():
                            continue  # the script closed the session: nothing left to serve
                    # ... then the same scripts without their opens: the existing session keeps serving
                    session_open = bool(h.live_ids())
                    for r in reqs:
                        ops = [o for o in r if o != "open"] or ["use"]
                        try:
                            res = view.run(ops=",".join(ops))
                            chk.hit("drain_existing_served")
                            # per operation: a 'use' must see the session unless this or an earlier request closed it
                            for op, got in zip(ops, res.split(","), strict=False):
                                if op == "close":
                                    session_open = False
                                elif op == "use" and session_open and got == "none":
                                    chk.violation("existing_session_refused_during_drain", "ctx.session was None for a live session while draining", {**wit, "result": res, "ops": ops})
                        except RpcError as e:
                            chk.violation("existing_session_refused_during_drain", f"{e.error_type}: {e.error_message[:100]}", wit)
                        _check_view(chk, h, view, tuple(ops), wit)
                    _ = tok, live_before
                # opens during drain: new view
                with conn.with_session_token() as view2:
                    before = h.live_ids()
                    hd = {"Content-Type": httpdrv.ARROW_CT, "VGI-Session-Accept": "true"}
                    resp = httpdrv.call(h.app, "POST", "/run", hd, httpdrv.request_body("run", schema, {"ops": "open"}))
                    err = httpdrv.error_of(httpdrv.parse_ipc(resp.body)) if resp.status == 200 else None
                    chk.hit("drain_open_checked")
                    if h.live_ids() - before:
                        chk.violation("session_opened_while_draining", "a session was registered while the worker was draining", wit)
                    if err is None or err.get("kind") != "server_draining":
                        chk.violation(
                            "drain_open_error_kind_not_server_draining",
                            f"open during drain answered status={resp.status} error={err and (err.get('type'), err.get('kind'))}",
                            wit,
                        )
                    try:
                        view2.run(ops="open")
                        chk.violation("session_opened_while_draining", "typed client open succeeded during drain", wit)
                    except RpcError as e:
                        if e.error_type != "ServerDrainingError":
                            chk.violation("drain_open_error_type", f"got {e.error_type}", wit)
        if len(chk.samples) < 3:
            chk.sample({"mode": mode, "requests": reqs})
    return chk.to_result()


def main(tier: str, seed: int) -> int:
    chk = Check(PID, tier, seed, rule=RULE)
    chk.require("view_compared", "block_exit_clean", "no_optin_checked", "raw_optin_checked", "drain_existing_served", "drain_open_checked")
    rng = random.Random(seed)
    scripts = _all_scripts(3)
    hs: list[dict[str, Any]] = []
    for s in scripts:
        hs.append({"mode": "view", "reqs": [s]})
        hs.append({"mode": "view", "reqs": [("open",), s]})
    pairs = list(itertools.product(scripts, repeat=2))
    rng.shuffle(pairs)
    for a, b in pairs[: 250 if tier == "quick" else len(pairs)]:
        hs.append({"mode": "view", "reqs": [a, b]})
    if tier == "thorough":
        for _ in range(3000):
            hs.append({"mode": "view", "reqs": [rng.choice(scripts) for _ in range(3)]})
    for s in scripts[:: 3 if tier == "quick" else 1]:
        hs.append({"mode": "no_optin", "reqs": [s]})
    for s in scripts[:: 4 if tier == "quick" else 1]:
        hs.append({"mode": "drain", "reqs": [s]})
    n = shard.ncpu()
    jobs = [{"tier": tier, "seed": seed, "histories": sh} for sh in shard.split(hs, n)]
    for res in shard.pmap("checks.c27", "run_shard", jobs, timeout=600 if tier == "quick" else 1700):
        chk.merge(res)
    chk.exhaustive["single_requests_and_open_then_request_len<=3"] = True
    chk.exhaustive["ordered_pairs"] = tier == "thorough"
    return chk.finish()

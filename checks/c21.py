"""C21 - 401 responses follow the unauthorized specification.

Server leg: authenticator *trees* (single leaves, OR chains of up to 3, nested chains,
``require_all`` with/without inner, mTLS / proxy-proof / custom proxy declarations) are
generated as data, built from the repository's real combinators and installed into the
real WSGI app.  Every (tree, request credential state, Accept header) is sent through the
raw WSGI driver and the response is compared with the reference composition model in
``lib/models/unauthorized.py`` (written from docs/unauthorized-spec.md):

* rejection -> 401, outage -> 503, accepted -> served;
* ``VGI-Auth-Reason`` in the closed set and equal to the model's code (chains:
  ``missing_credential`` only when every alternative saw none);
* JSON envelope (unless Accept asks for text/html) with the same reason;
* ``Cache-Control: no-store``;
* proxy note (header + ``proxy_hint``) present iff the configuration depends on
  proxy-injected headers, and identical on every 401 of one app.

Client leg: the real ``http_connect`` client is pointed at those apps (reason surfaced on
``AuthenticationError``) and at a stub WSGI app answering 401 with arbitrary bodies;
``_parse_unauthorized`` is fuzzed with arbitrary bytes / JSON shapes.  The oracle is
totality + closed-set reason (+ envelope reason preserved when it is in the set).
"""

from __future__ import annotations

import base64
import hashlib
import hmac
import itertools
import json
import random
from typing import Any

from lib import shard
from lib.evidence import Check

_OUTAGE_HINTS: list[Any] = [3, "default", 0, 2.5, -4, 10**7, 1]
_outage_counter = [0]

PID = "C21"
ENGINE = "E1-svcgen-rig+E2-raw-drivers+E5-models+E6-evidence"
TECHNIQUE = "reference composition model vs. observed 401s over generated authenticator trees; client 401-parser fuzz"
LEVEL_TEXT = (
    "Exploration: every single leaf kind, every chain of two over 10 representative leaf behaviours, chains of three over 5, "
    "require_all x {allow, require} x inner kinds (exhaustive lists) plus seeded random trees of depth <= 3, each under the product of "
    "relevant credential states and a rotating set of Accept headers, are executed in the real WSGI app and compared with a model "
    "written from unauthorized-spec.md; the real client is driven against those apps and against arbitrary 401 bodies. Held means no "
    "disagreement on the executions listed. Outage leaves raise AuthUnavailableError with integer, default, zero, float, negative and huge retry hints."
)
LEVEL_NOTE = (
    "model trusted (lib/models/unauthorized.py); proofs minted by an independent minter; HTML page content not parsed (spec: presentation only); "
    "client header-fallback for the reason code (spec section 6) recorded, not judged (outside the statement)"
)
CATEGORY = "exploration"
RULE = (
    "case = (authenticator tree, credential state, Accept header); trees from exhaustive small lists + seeded random composition; "
    "client cases = (401 body shape); distinct class = (tree shape with leaf kinds, model outcome, accept class, note expected) / body shape"
)

SECRET = bytes(range(1, 33))
KID = "edge-1"
ORIGIN = "worker/1"
T0 = 1_900_000_000

REASONS = ["missing_credential", "invalid_credential", "expired_credential", "insufficient_scope", "proxy_required", "unauthorized"]
ACCEPTS: list[str | None] = [
    None,
    "*/*",
    "application/json",
    "application/vnd.apache.arrow.stream",
    "text/html",
    "text/html,application/xhtml+xml,application/xml;q=0.9,*/*;q=0.8",
    "TEXT/HTML",
    "text/plain",
    "",
]
DETAILS = ["nope", "", 'bad "token" <b>é</b> & more', "x" * 300, "line1\nline2", "tab\there"]


def _b64(raw: bytes) -> str:
    return base64.urlsafe_b64encode(raw).rstrip(b"=").decode()


def mint(rng: random.Random) -> str:
    nonce = _b64(bytes(rng.getrandbits(8) for _ in range(16)))
    msg = b"vgi.proxy.proof.v1\x00" + KID.encode() + b"\x00" + str(T0).encode() + b"\x00" + nonce.encode() + b"\x00" + ORIGIN.encode()
    return f"v1.{KID}.{T0}.{nonce}.{_b64(hmac.new(SECRET, msg, hashlib.sha256).digest())}"


# ---------------------------------------------------------------------------
# trees
# ---------------------------------------------------------------------------


def L(kind: str, **kw: Any) -> dict[str, Any]:
    return {"t": "leaf", "kind": kind, **kw}


def all_leaves() -> list[dict[str, Any]]:
    out = [L("accept"), L("value_error"), L("value_error_junk_attr"), L("permission_error"), L("unavailable"), L("bearer"), L("xfcc"), L("pem")]
    for r in REASONS:
        out.append(L("failure", reason=r))
        out.append(L("value_error_declared", reason=r))
        out.append(L("permission_error_declared", reason=r))
        out.append(L("custom_proxy", reason=r))
    return out


REPR10 = [
    L("failure", reason="missing_credential"),
    L("failure", reason="invalid_credential"),
    L("failure", reason="expired_credential"),
    L("value_error"),
    L("permission_error"),
    L("bearer"),
    L("xfcc"),
    L("unavailable"),
    L("accept"),
    L("value_error_declared", reason="missing_credential"),
]
REPR5 = [L("failure", reason="missing_credential"), L("bearer"), L("failure", reason="invalid_credential"), L("value_error"), L("xfcc")]


def fixed_trees() -> list[dict[str, Any]]:
    trees: list[dict[str, Any]] = list(all_leaves())
    for a, b in itertools.product(REPR10, repeat=2):
        trees.append({"t": "chain", "members": [a, b]})
    for a, b, c in itertools.product(REPR5, repeat=3):
        trees.append({"t": "chain", "members": [a, b, c]})
    inners: list[dict[str, Any] | None] = [None, L("accept"), L("bearer"), L("xfcc"), L("pem"), L("failure", reason="expired_credential"), L("value_error"), L("permission_error"), L("unavailable"), {"t": "chain", "members": [L("bearer"), L("xfcc")]}]
    for mode in ("allow", "require"):
        for inner in inners:
            ra = {"t": "require_all", "mode": mode, "inner": inner}
            trees.append(ra)
            trees.append({"t": "chain", "members": [ra, L("bearer")]})
            trees.append({"t": "chain", "members": [L("failure", reason="missing_credential"), ra]})
    trees.append({"t": "chain", "members": [{"t": "chain", "members": [L("failure", reason="missing_credential"), L("bearer")]}, L("failure", reason="missing_credential")]})
    trees.append({"t": "chain", "members": [{"t": "chain", "members": [L("failure", reason="missing_credential"), L("failure", reason="expired_credential")]}, L("failure", reason="invalid_credential")]})
    trees.append({"t": "chain", "members": [L("bearer")]})
    return trees


def gen_tree(rng: random.Random, depth: int = 0) -> dict[str, Any]:
    r = rng.random()
    leaves = all_leaves()
    if depth >= 2 or r < 0.25:
        return rng.choice(leaves)
    if r < 0.7:
        return {"t": "chain", "members": [gen_tree(rng, depth + 1) for _ in range(rng.choice([1, 2, 2, 3, 3]))]}
    inner = None if rng.random() < 0.25 else gen_tree(rng, depth + 1)
    return {"t": "require_all", "mode": rng.choice(["allow", "require"]), "inner": inner}


def leaf_kinds(node: dict[str, Any] | None, acc: set[str] | None = None) -> set[str]:
    acc = set() if acc is None else acc
    if node is None:
        return acc
    if node["t"] == "leaf":
        acc.add(node["kind"])
    elif node["t"] == "chain":
        for m in node["members"]:
            leaf_kinds(m, acc)
    else:
        acc.add("gate:" + node["mode"])
        leaf_kinds(node.get("inner"), acc)
    return acc


def request_states(kinds: set[str], rng: random.Random, cap: int) -> list[dict[str, str]]:
    dims: list[tuple[str, list[str]]] = []
    if "bearer" in kinds:
        dims.append(("authz", ["none", "basic", "bearer_good", "bearer_bad"]))
    if "xfcc" in kinds:
        dims.append(("xfcc", ["none", "empty", "ok"]))
    if "pem" in kinds:
        dims.append(("pem", ["none", "junk"]))
    if any(k.startswith("gate:") for k in kinds):
        dims.append(("proof", ["none", "valid", "bad"]))
    combos = [dict(zip([d[0] for d in dims], vals, strict=True)) for vals in itertools.product(*[d[1] for d in dims])]
    if len(combos) > cap:
        first = combos[0]
        combos = [first] + rng.sample(combos[1:], cap - 1)
    return combos


def _undeclare_in_chains(node: dict[str, Any] | None, under_chain: bool) -> dict[str, Any] | None:
    """Copy of *node* in which attribute-declared ValueErrors reached through a chain count as unclassified."""
    if node is None:
        return None
    if node["t"] == "leaf":
        if under_chain and node["kind"] == "value_error_declared":
            return {"t": "leaf", "kind": "value_error"}
        return node
    if node["t"] == "chain":
        return {"t": "chain", "members": [_undeclare_in_chains(m, True) for m in node["members"]]}
    return {"t": "require_all", "mode": node["mode"], "inner": _undeclare_in_chains(node.get("inner"), under_chain)}


def _tree_class(node: dict[str, Any] | None) -> str:
    """Shape with leaf kinds but without reason values (keeps the class count meaningful)."""
    if node is None:
        return "none"
    if node["t"] == "leaf":
        return node["kind"]
    if node["t"] == "chain":
        return "chain(" + ",".join(_tree_class(m) for m in node["members"]) + ")"
    return f"req[{node['mode']}](" + _tree_class(node.get("inner")) + ")"


# ---------------------------------------------------------------------------
# shard: server + client-on-real-app leg
# ---------------------------------------------------------------------------


def _builder() -> Any:
    from lib.models import unauthorized as M
    from vgi_rpc.http import (
        AuthFailure,
        AuthReason,
        AuthUnavailableError,
        ProxyProofConfig,
        bearer_authenticate_static,
        chain_authenticate,
        mtls_authenticate_xfcc,
        proxy_proof_gate,
        require_all,
    )
    from vgi_rpc.http._unauthorized import declare_proxy_headers
    from vgi_rpc.rpc import AuthContext

    try:
        from vgi_rpc.http import mtls_authenticate_subject
    except ImportError:  # cryptography missing
        mtls_authenticate_subject = None  # type: ignore[assignment]

    class DeclaredValueError(ValueError):
        pass

    class DeclaredPermissionError(PermissionError):
        pass

    ctx = AuthContext(domain="custom", authenticated=True, principal="u")

    def build(node: dict[str, Any], detail: str) -> Any:
        t = node["t"]
        if t == "chain":
            return chain_authenticate(*[build(m, detail) for m in node["members"]])
        if t == "require_all":
            cfg = ProxyProofConfig(mode=node["mode"], origin_id=ORIGIN, secrets={KID: (SECRET, "proxy-A")}, skew_seconds=30)
            gate = proxy_proof_gate(cfg, now=lambda: T0)
            return require_all(gate, None if node.get("inner") is None else build(node["inner"], detail))
        kind = node["kind"]
        if kind == "bearer":
            return bearer_authenticate_static(tokens={"good": ctx})
        if kind == "xfcc":
            return mtls_authenticate_xfcc()
        if kind == "pem":
            if mtls_authenticate_subject is None:
                raise LookupError("cryptography not installed")
            return mtls_authenticate_subject()

        def leaf(req: Any) -> Any:
            if kind == "accept":
                return ctx
            if kind == "failure":
                raise AuthFailure(AuthReason(node["reason"]), detail)
            if kind == "value_error":
                raise ValueError(detail)
            if kind in ("value_error_declared", "value_error_junk_attr"):
                e = DeclaredValueError(detail)
                e.vgi_auth_reason = AuthReason(node["reason"]) if kind == "value_error_declared" else "expired_credential"  # type: ignore[attr-defined]
                raise e
            if kind == "permission_error":
                raise PermissionError(detail)
            if kind == "permission_error_declared":
                e2 = DeclaredPermissionError(detail)
                e2.vgi_auth_reason = AuthReason(node["reason"])  # type: ignore[attr-defined]
                raise e2
            if kind == "unavailable":
                # the hint an integration passes through is not always a tidy positive int (a float from an upstream
                # Retry-After, a deadline that has already elapsed): an outage stays an outage whatever the hint
                hint = _OUTAGE_HINTS[_outage_counter[0] % len(_OUTAGE_HINTS)]
                _outage_counter[0] += 1
                if hint == "default":
                    raise AuthUnavailableError("idp down")
                raise AuthUnavailableError("idp down", retry_after=hint)  # type: ignore[arg-type]
            if kind == "custom_proxy":
                raise AuthFailure(AuthReason(node["reason"]), detail)
            raise AssertionError(kind)

        if kind == "custom_proxy":
            declare_proxy_headers(leaf, M.CUSTOM_PROXY_HEADER)
        return leaf

    return build


def run_shard(job: dict[str, Any]) -> dict[str, Any]:
    if job["kind"] == "client_fuzz":
        return _client_fuzz(job)
    import warnings

    import pyarrow as pa

    from lib import httpdrv, svcgen
    from lib.models import unauthorized as M
    from vgi_rpc.http import AuthenticationError, AuthReason, http_connect, make_wsgi_app
    from vgi_rpc.http._testing import _SyncTestClient
    from vgi_rpc.rpc import RpcServer

    warnings.simplefilter("ignore")
    chk = Check(PID, job["tier"], job["seed"])
    rng = random.Random(job["seed"])
    build = _builder()
    program = {"name": "GenSvc", "methods": [{"name": "whoami", "kind": "unary", "params": [], "ret": ("int",), "u": {"logs": [], "act": ("return", 1)}}], "calls": []}
    body = httpdrv.request_body("whoami", pa.schema([]), None)
    proto, impl = svcgen.build(program)
    server = RpcServer(proto, impl)
    acc_i = job["seed"]

    trees: list[dict[str, Any]] = list(job.get("trees", []))
    for _ in range(job.get("random_trees", 0)):
        trees.append(gen_tree(rng))

    for tree in trees:
        detail = rng.choice(DETAILS)
        extra_hdrs = rng.choice([None, None, None, ["X-Operator-Stamp"], ["X-Operator-Stamp", "X-Two"]])
        flag = rng.random() < 0.1
        try:
            authenticate = build(tree, detail)
        except LookupError:
            chk.skip("pem_leaf_needs_cryptography")
            continue
        app = make_wsgi_app(server, authenticate=authenticate, token_key=b"k" * 32, proxy_auth_headers=extra_hdrs, proxy_proof_required=flag)
        declared = list(dict.fromkeys(M.declared_headers(tree) + list(extra_hdrs or []) + ([M.PROOF_HEADER] if flag else [])))
        note_expected = bool(declared)
        kinds = leaf_kinds(tree)
        notes_seen: set[tuple[str | None, str | None]] = set()
        note_wits: list[Any] = []
        tcls = _tree_class(tree)
        if len(tcls) > 90:
            tcls = tcls[:90] + "..."
        states = request_states(kinds, rng, job.get("state_cap", 8))
        if len(states) < 4:
            states = [st for st in states for _ in range(3)]
        for state in states:
            acc_i += 1
            accept = ACCEPTS[acc_i % len(ACCEPTS)]
            hdrs: list[tuple[str, str]] = [("Content-Type", httpdrv.ARROW_CT)]
            if accept is not None:
                hdrs.append(("Accept", accept))
            a = state.get("authz", "none")
            if a != "none":
                hdrs.append(("Authorization", {"basic": "Basic eDp5", "bearer_good": "Bearer good", "bearer_bad": "Bearer nope"}[a]))
            x = state.get("xfcc", "none")
            if x != "none":
                hdrs.append((M.XFCC_HEADER, "," if x == "empty" else 'Hash=abc;Subject="CN=alice,O=Acme"'))
            if state.get("pem", "none") == "junk":
                hdrs.append((M.PEM_HEADER, "not-a-pem"))
            p = state.get("proof", "none")
            if p != "none":
                hdrs.append((M.PROOF_HEADER, mint(rng) if p == "valid" else rng.choice(["v1.x", "garbage", mint(rng)[:-4] + "AAAA"])))
            want = M.evaluate(tree, state)
            inv0 = len(impl.inv)
            r = httpdrv.call(app, "POST", "/whoami", hdrs, body)
            dispatched = len(impl.inv) > inv0
            acls = "none" if accept is None else "html" if "text/html" in accept else "HTML-upper" if "text/html" in accept.lower() else "other"
            chk.case(f"{tcls}|{want.kind}:{want.reason}|accept={acls}|note={int(note_expected)}")
            reason_h = r.header("VGI-Auth-Reason")
            wit = {
                "tree": M.shape(tree),
                "state": state,
                "accept": accept,
                "proxy_auth_headers": extra_hdrs,
                "proxy_proof_required": flag,
                "model": {"kind": want.kind, "reason": want.reason},
                "status": r.status,
                "reason_header": reason_h,
                "content_type": r.header("content-type"),
                "body_prefix": r.body[:160],
            }
            if r.exc is not None:
                chk.violation(f"app_raised:{type(r.exc).__name__}", "exception escaped the WSGI app", wit)
                continue
            if want.kind == "accept":
                chk.hit("accepted")
                if r.status == 401:
                    chk.violation("accepted_request_rejected", "model: some alternative accepts this request, but the app answered 401", wit)
                elif not dispatched:
                    chk.violation(f"accepted_request_not_served:{r.status}", "model: accepted, but the method was not invoked", wit)
                continue
            if want.kind == "unavailable":
                chk.hit("outage")
                if r.status != 503:
                    key = "outage_reported_as_401" if r.status == 401 else f"outage_not_503:{r.status}"
                    chk.violation(key, "an authenticator outage (AuthUnavailableError) must yield 503, not a rejection", wit)
                if dispatched:
                    chk.violation("dispatch_after_outage", "method invoked although authentication was unavailable", wit)
                continue
            # ---- rejection
            chk.hit("rejections")
            if dispatched:
                chk.violation("dispatch_after_rejection", "method invoked although the model rejects the request", wit)
            if r.status != 401:
                chk.violation(f"rejection_not_401:{r.status}", "an authentication rejection did not produce a 401", wit)
                continue
            if reason_h is None:
                chk.violation("reason_header_missing", "401 without VGI-Auth-Reason", wit)
            elif reason_h not in M.CLOSED_SET:
                chk.violation("reason_outside_closed_set", f"VGI-Auth-Reason {reason_h!r} is not in the closed set", wit)
            elif reason_h != want.reason:
                chk.hit("reason_compared")
                if tree["t"] == "chain" and reason_h == "missing_credential":
                    chk.violation(
                        "chain_missing_credential_although_credential_seen",
                        "a chain reported missing_credential although an alternative saw (and rejected) a credential",
                        {**wit, "alternatives": M.alternatives_seen(tree, state)},
                    )
                elif "value_error_declared" in kinds and M.evaluate(_undeclare_in_chains(tree, False), state).reason == reason_h:
                    # The only disagreement is how a chain reads a *plain ValueError subclass* that declares its code through
                    # the vgi_auth_reason attribute: stand-alone the server honours it, inside a chain it counts as 'unauthorized'.
                    # How a Python exception declares its code is not part of the spec, so this is recorded, not judged.
                    chk.skip("chain_ignores_reason_attribute_on_non_AuthFailure_ValueError_recorded_not_judged")
                else:
                    key = "reason_mismatch:" + ("chain" if "chain(" in M.shape(tree) else tree["t"])
                    chk.violation(key, f"reason {reason_h!r} but the composition model says {want.reason!r}", {**wit, "alternatives": M.alternatives_seen(tree, state) if tree["t"] == "chain" else None})
            else:
                chk.hit("reason_compared")
            cc = r.header("cache-control") or ""
            if "no-store" not in cc.lower():
                chk.violation("cache_control_not_no_store", f"401 with Cache-Control {cc!r}", wit)
            ph = r.header("VGI-Auth-Proxy-Required")
            if ph is not None and ph != "true":
                chk.violation("proxy_required_header_value", f"VGI-Auth-Proxy-Required: {ph!r} (only 'true' or absent allowed)", wit)
            if note_expected and ph is None:
                chk.violation("proxy_note_missing", "configuration depends on proxy-injected headers but the 401 carries no VGI-Auth-Proxy-Required", {**wit, "declared": declared})
            if not note_expected and ph is not None:
                chk.violation("proxy_note_unexpected", "401 carries the proxy note although no authenticator / option declares a proxy header", wit)
            chk.hit("note_present" if ph else "note_absent")
            ctype = (r.header("content-type") or "").lower()
            must_json = not M.wants_html_strict(accept)
            is_json = ctype.startswith("application/json")
            hint: str | None = None
            if must_json and not is_json:
                chk.violation("non_html_request_not_answered_with_json", f"Accept {accept!r} answered with {ctype!r}", wit)
            if is_json:
                chk.hit("json_envelopes")
                try:
                    env = json.loads(r.decoded_body())
                except Exception as exc:  # noqa: BLE001
                    chk.violation("json_envelope_unparseable", f"{type(exc).__name__}", wit)
                    continue
                if not isinstance(env, dict) or env.get("error") != "unauthorized" or not isinstance(env.get("detail"), str):
                    chk.violation("json_envelope_shape", "envelope lacks error='unauthorized' / string detail", {**wit, "envelope": env})
                if isinstance(env, dict):
                    if env.get("reason") != reason_h:
                        chk.violation("json_reason_differs_from_header", f"body reason {env.get('reason')!r} vs header {reason_h!r}", wit)
                    hint = env.get("proxy_hint")
                    if note_expected and not hint:
                        chk.violation("proxy_note_missing", "proxy_hint absent/empty although the configuration depends on proxy headers", {**wit, "declared": declared})
                    if not note_expected and "proxy_hint" in env:
                        chk.violation("proxy_note_unexpected", "proxy_hint present although nothing declares a proxy header", wit)
                    notes_seen.add((ph, hint))
                    note_wits.append({"state": state, "accept": accept, "reason": reason_h, "header": ph, "hint": (hint or "")[:80]})
            else:
                chk.hit("html_pages")
                if "text/html" not in ctype:
                    chk.violation("unknown_401_content_type", f"content type {ctype!r}", wit)

            # ---- real client against this 401
            if job.get("client_every") and acc_i % job["client_every"] == 0:
                dh = {k: v for k, v in hdrs if k not in ("Content-Type", "Accept")}
                if state.get("proof") == "valid":
                    dh[M.PROOF_HEADER] = mint(rng)
                try:
                    with http_connect(proto, client=_SyncTestClient(app, default_headers=dh)) as proxy:
                        proxy.whoami()
                    chk.violation("client_call_succeeded_on_rejection", "client call returned although the server rejects the request", wit)
                except AuthenticationError as exc:
                    chk.hit("client_on_real_401")
                    if not isinstance(exc.reason, AuthReason) or exc.reason.value not in M.CLOSED_SET:
                        chk.violation("client_reason_outside_closed_set", f"AuthenticationError.reason = {exc.reason!r}", wit)
                    elif exc.reason.value != reason_h:
                        chk.violation("client_reason_differs_from_server", f"client reason {exc.reason.value!r} vs header {reason_h!r}", wit)
                    if note_expected and hint and hint not in str(exc):
                        chk.violation("client_drops_proxy_hint", "proxy_hint not surfaced in the exception message", wit)
                except Exception as exc:  # noqa: BLE001
                    chk.violation(f"client_raised_on_real_401:{type(exc).__name__}", f"client raised {type(exc).__name__}: {str(exc)[:100]} instead of AuthenticationError", wit)
        if len(notes_seen) > 1:
            chk.violation("proxy_note_differs_between_401s", "two 401s of one app carry different proxy notes", {"tree": M.shape(tree), "notes": note_wits[:6]})
        if notes_seen:
            chk.hit("note_uniformity_compared")
        if rng.random() < 0.01:
            chk.sample({"tree": M.shape(tree), "declared": declared, "note_expected": note_expected})
    return chk.to_result()


# ---------------------------------------------------------------------------
# client fuzz leg
# ---------------------------------------------------------------------------


def _gen_json_value(rng: random.Random, depth: int = 0) -> Any:
    r = rng.random()
    if depth > 2 or r < 0.5:
        return rng.choice([None, True, False, 0, -1, 1.5, 10**30, "", "x", "unauthorized", "expired_credential", "é", "\u0000", "a" * 700])
    if r < 0.75:
        return [_gen_json_value(rng, depth + 1) for _ in range(rng.choice([0, 1, 3]))]
    return {rng.choice(["reason", "detail", "k", "error", "proxy_hint", ""]): _gen_json_value(rng, depth + 1) for _ in range(rng.choice([0, 1, 3]))}


def gen_body(rng: random.Random) -> tuple[str, bytes, str | None]:
    """(shape, body, envelope reason if the body is an object with a closed-set *string* reason)."""
    closed = REASONS
    r = rng.random()
    if r < 0.22:
        reason: Any = rng.choice(closed + ["", "UNAUTHORIZED", "expired", "proxy-required", " unauthorized", "invalid_credential\n", "rate_limited"])
        env: dict[str, Any] = {"error": "unauthorized", "reason": reason, "detail": rng.choice(DETAILS)}
        if rng.random() < 0.4:
            env["proxy_hint"] = rng.choice(["go through the proxy", "", None, 5, ["x"]])
        if rng.random() < 0.3:
            env["extra_field"] = _gen_json_value(rng)
        if rng.random() < 0.2:
            env.pop(rng.choice(["error", "detail"]))
        return "envelope", json.dumps(env).encode(), reason if reason in closed else None
    if r < 0.34:
        reason = rng.choice([None, 7, 1.5, True, ["expired_credential"], {"reason": "expired_credential"}])
        return "envelope_nonstring_reason", json.dumps({"error": "unauthorized", "reason": reason, "detail": _gen_json_value(rng)}).encode(), None
    if r < 0.46:
        v = _gen_json_value(rng)
        exp = v.get("reason") if isinstance(v, dict) and isinstance(v.get("reason"), str) and v.get("reason") in closed else None
        return "json_" + type(v).__name__, json.dumps(v).encode(), exp
    if r < 0.52:
        d = rng.choice([3, 50, 900, 1100, 5000, 20_000, 100_000])
        open_, close = rng.choice([("[", "]"), ('{"a":', "}")])
        inner = b"1" if rng.random() < 0.5 else b""
        return f"deep_nesting_{'<1000' if d < 1000 else '>=1000'}", open_.encode() * d + inner + close.encode() * (d if inner else 0), None
    if r < 0.60:
        txt = json.dumps({"error": "unauthorized", "reason": rng.choice(closed), "detail": "d"})
        variant = rng.choice(["utf16", "utf32", "bom", "trailing", "dupkeys", "nan", "bignum", "truncated", "single_quotes"])
        exp: str | None = None
        if variant == "utf16":
            b = txt.encode("utf-16")
        elif variant == "utf32":
            b = txt.encode("utf-32")
        elif variant == "bom":
            b = b"\xef\xbb\xbf" + txt.encode()
        elif variant == "trailing":
            b = txt.encode() + b" trailing"
        elif variant == "dupkeys":
            b = b'{"reason":"expired_credential","reason":"bogus","detail":"d"}'
        elif variant == "nan":
            b = b'{"reason":NaN,"detail":Infinity}'
        elif variant == "bignum":
            b = b'{"reason":' + b"9" * 5000 + b"}"
        elif variant == "truncated":
            b = txt.encode()[: rng.randrange(1, len(txt))]
        else:
            b = txt.replace('"', "'").encode()
        return "json_variant_" + variant, b, exp
    if r < 0.70:
        page = rng.choice(["<!DOCTYPE html><html><body>401</body></html>", "<html><h1>Denied</h1>", "  \n<!doctype HTML>", "<HTML>", "<!doc", "<htm"])
        return "html", page.encode() + b"x" * rng.choice([0, 10, 5000]), None
    if r < 0.76:
        return "empty_or_ws", rng.choice([b"", b" ", b"\n\n", b"\x00"]), None
    if r < 0.84:
        return "text", rng.choice(["Unauthorized", "401 Authorization Required", "é" * 400, "x" * 100_000]).encode(), None
    if r < 0.92:
        return "random_bytes", rng.randbytes(rng.choice([1, 7, 64, 2000])), None
    import io

    import pyarrow as pa
    from pyarrow import ipc

    sink = io.BytesIO()
    with ipc.new_stream(sink, pa.schema([("a", pa.int64())])) as w:
        w.write_batch(pa.RecordBatch.from_pydict({"a": [1]}))
    return "arrow_ipc", sink.getvalue(), None


def _client_fuzz(job: dict[str, Any]) -> dict[str, Any]:
    import warnings

    from lib import svcgen
    from lib.models import unauthorized as M
    from vgi_rpc.http import AuthenticationError, AuthReason, http_connect
    from vgi_rpc.http._client import _parse_unauthorized
    from vgi_rpc.http._testing import _SyncTestClient

    warnings.simplefilter("ignore")
    chk = Check(PID, job["tier"], job["seed"])
    rng = random.Random(job["seed"])
    program = {
        "name": "GenSvc",
        "methods": [
            {"name": "whoami", "kind": "unary", "params": [], "ret": ("int",), "u": {"logs": [], "act": ("return", 1)}},
            {"name": "prod", "kind": "producer", "params": [], "header": False, "out_cols": ["i"], "init": {"logs": [], "act": ("ok",)}, "steps": [{"logs": [], "act": "emit"}]},
            {"name": "prodh", "kind": "producer", "params": [], "header": True, "out_cols": ["i"], "init": {"logs": [], "act": ("ok",)}, "steps": [{"logs": [], "act": "emit"}]},
        ],
        "calls": [],
    }
    proto, _impl = svcgen.build(program)
    current: dict[str, Any] = {"body": b"", "ctype": "application/json", "reason_header": None}

    def stub_app(environ: dict[str, Any], start_response: Any) -> Any:
        if environ["REQUEST_METHOD"] == "OPTIONS":
            start_response("200 OK", [("Content-Length", "0")])
            return [b""]
        hs = [("Content-Type", current["ctype"]), ("Content-Length", str(len(current["body"])))]
        if current["reason_header"]:
            hs.append(("VGI-Auth-Reason", current["reason_header"]))
        start_response("401 Unauthorized", hs)
        return [current["body"]]

    for i in range(job["count"]):
        shape, body, env_reason = gen_body(rng)
        chk.case(f"client|{shape}")
        wit = {"shape": shape, "body": body[:200], "len": len(body)}
        # (a) the parser itself
        chk.hit("parse_unauthorized_calls")
        try:
            err = _parse_unauthorized(body)
        except BaseException as exc:  # noqa: BLE001
            chk.violation(f"client_raised_on_401_body:{type(exc).__name__}", "the client's 401-body parser raised instead of degrading to an AuthenticationError", {**wit, "exc": str(exc)[:120]})
            err = None
        if err is not None:
            if not isinstance(err, AuthenticationError):
                chk.violation("client_parse_wrong_type", f"returned {type(err).__name__}", wit)
            elif not isinstance(err.reason, AuthReason) or err.reason.value not in M.CLOSED_SET:
                chk.violation("client_reason_outside_closed_set", f"reason {err.reason!r}", wit)
            elif env_reason is not None:
                chk.hit("envelope_reason_compared")
                if err.reason.value != env_reason:
                    chk.violation("client_envelope_reason_lost", f"envelope reason {env_reason!r} surfaced as {err.reason.value!r}", wit)
            elif shape in ("envelope", "envelope_nonstring_reason") and err.reason.value != "unauthorized":
                chk.violation("client_unrecognised_reason_not_unauthorized", f"unrecognised envelope reason surfaced as {err.reason.value!r}", wit)
            try:
                str(err)
                repr(err)
            except Exception as exc:  # noqa: BLE001
                chk.violation(f"client_error_unprintable:{type(exc).__name__}", "AuthenticationError cannot be rendered", wit)
        # (b) the real client in front of a server answering this body
        if i % job.get("e2e_every", 3) == 0 and len(body) < 200_000:
            current["body"] = body
            current["ctype"] = rng.choice(["application/json", "text/html; charset=utf-8", "text/plain", "application/vnd.apache.arrow.stream"])
            current["reason_header"] = rng.choice([None, None, "expired_credential", "bogus"])
            route = rng.choice(["whoami", "prod", "prodh"])
            chk.case(f"client_e2e|{route}|{shape}")
            try:
                with http_connect(proto, client=_SyncTestClient(stub_app)) as proxy:
                    res = getattr(proxy, route)()
                    if route != "whoami":
                        list(res)
                chk.violation("client_call_succeeded_on_401", "client call returned normally for a 401", {**wit, "route": route})
            except AuthenticationError as exc:
                chk.hit("client_e2e_401")
                if not isinstance(exc.reason, AuthReason) or exc.reason.value not in M.CLOSED_SET:
                    chk.violation("client_reason_outside_closed_set", f"reason {exc.reason!r}", {**wit, "route": route})
                if env_reason is None and current["reason_header"] == "expired_credential" and exc.reason.value == "unauthorized" and not shape.startswith(("envelope", "json_dict")):
                    chk.skip("client_ignores_VGI-Auth-Reason_header_fallback_recorded_not_judged")
            except BaseException as exc:  # noqa: BLE001
                chk.violation(f"client_raised_on_401_body:{type(exc).__name__}", f"client raised {type(exc).__name__} instead of AuthenticationError for a 401", {**wit, "route": route, "exc": str(exc)[:120]})
        if rng.random() < 0.003:
            chk.sample(wit)
    return chk.to_result()


def _run(tier: str, seed: int) -> Check:
    chk = Check(PID, tier, seed, level=CATEGORY, rule=RULE)
    chk.require(
        "rejections",
        "accepted",
        "outage",
        "reason_compared",
        "json_envelopes",
        "html_pages",
        "note_present",
        "note_absent",
        "note_uniformity_compared",
        "client_on_real_401",
        "parse_unauthorized_calls",
        "envelope_reason_compared",
        "client_e2e_401",
    )
    chk.assumptions = [
        "reference model lib/models/unauthorized.py (unauthorized-spec sections 3-5, proxy-proof-spec section 8) is trusted",
        "a stand-alone leaf's code is what the spec's composition rule combines (declared reason attribute honoured for any ValueError)",
        "Accept containing text/html in any letter case may be answered with HTML or JSON; everything else must be JSON",
        "HTML pages are not parsed; spec section 6 header fallback in the client is recorded, not judged",
    ]
    rng = random.Random(seed)
    trees = fixed_trees()
    rng.shuffle(trees)
    jobs: list[dict[str, Any]] = []  # fixed shard counts: results do not depend on the worker count
    rnd = 500 if tier == "quick" else 16000
    parts = shard.split(trees, 8 if tier == "quick" else 32)
    for i, part in enumerate(parts):
        jobs.append({"kind": "server", "tier": tier, "seed": seed * 1000 + i, "trees": part, "random_trees": rnd // len(parts) + 1, "state_cap": 8 if tier == "quick" else 24, "client_every": 7 if tier == "quick" else 5})
    nfz = 2 if tier == "quick" else 12
    for i in range(nfz):
        jobs.append({"kind": "client_fuzz", "tier": tier, "seed": seed * 1000 + 500 + i, "count": (3000 if tier == "quick" else 200_000) // nfz, "e2e_every": 3})
    for res in shard.pmap("checks.c21", "run_shard", jobs, timeout=600 if tier == "quick" else 2400):
        chk.merge(res)
    chk.extra["fixed_trees"] = len(trees)
    chk.exhaustive["single leaves; chains of 2 over 10 leaf behaviours; chains of 3 over 5; require_all x mode x 10 inners"] = True
    chk.exhaustive["random trees / client bodies"] = False
    return chk


def main(tier: str, seed: int) -> int:
    return _run(tier, seed).finish()


def replay(path: str) -> int:
    """Re-execute the run (tier, seed) recorded in a replay file; the recorded mechanism key must fire again."""
    import json

    with open(path) as fh:
        rec = json.load(fh)
    chk = _run(rec["tier"], int(rec["seed"]))
    v = chk.violations.get(rec["key"])
    if v is not None:
        print(f"VIOLATION property={PID} replay={path}")
        print(f"  key={rec['key']}: reproduced ({v['count']}x): {v['what']}")
        return 1
    print(f"INCONCLUSIVE property={PID} reason=replay of {rec['key']} did not reproduce (other keys: {sorted(chk.violations)})")
    return 2

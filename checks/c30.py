"""C30 - external-storage offload is transparent and integrity-checked.

Storage is an in-process ``ExternalStorage`` / ``UploadUrlProvider`` whose objects are served by the
scripted loopback origin (``lib/origin.py``), so the real fetch path (aiohttp, HEAD/range probes,
Content-Encoding handling, tenacity retry loop) runs for every resolution.

Leg T1 (server -> client, pipe and HTTP): generated programs (``lib/svcgen``) run inline (no external
config) and with ``externalize_threshold_bytes`` in {0, around batch size, never} x compression
{none, zstd, gzip}; client-visible traces (logs, headers, batches, results, errors) and the server
invocation log must be identical.
Leg T2 (client -> server, HTTP): the same with a request-size cap so that unary/init requests and
exchange inputs are uploaded through server-vended URLs and arrive as pointer batches.
Leg K (corruption): the origin serves a corrupted variant of the uploaded object(s): byte flips
(stored and decoded bytes), truncation, substituted object, nested pointer, extra data batch, zero
data batches, schema change, wrong Content-Encoding, garbage.  Monitors:
  resolver hook   ``vgi_rpc.external._fetch_and_resolve`` returning normally for a corrupted object
  markers         forged objects carry marker values; none may reach a client event or the server's
                  invocation log
  prefix rule     what was delivered before the failure must be a prefix of inline delivery
Pointers without a digest (client uploads; a peer that does not send ``vgi_rpc.location.sha256``,
emulated by dropping the digest when the pointer is built) are judged on the structural clauses only
(nested pointer, batch count, schema).
"""

from __future__ import annotations

import contextlib
import random
import sys
import threading
import time
from typing import Any

from lib import shard
from lib.evidence import ROOT, Check

PID = "C30"
ENGINE = "E1-svcgen-rig+E4-injection"
TECHNIQUE = "differential executions (inline vs externalized) + storage-side corruption with resolver hook, markers and prefix oracle"
LEVEL_TEXT = (
    "Fault enumeration: generated programs executed inline and under every threshold x compression configuration over pipe "
    "and HTTP (server offload) and HTTP with a request cap (client upload); traces and server invocation logs compared for "
    "equality. Every corruption kind applied to the objects of generated calls on each transport, with and without a "
    "pointer digest; a resolver hook, planted markers and a prefix-of-inline oracle judge each run. Held means no "
    "difference and no corrupted object resolved in those executions."
)
LEVEL_NOTE = "tenacity is a stand-in unless the real package is importable (recorded as tenacity_impl); pyarrow used to forge objects; origin serves objects honestly apart from the scripted corruption"
CATEGORY = "fault_enumeration"
RULE = (
    "T: case = (program, transport, threshold, compression, fetch path); distinct class = (leg, transport, threshold class, "
    "codec, which item kinds were externalized). K: case = (call, transport, digest present, corruption kind, target); "
    "distinct class = (transport, item kind, digest, corruption kind, outcome)"
)

MARK_INT = 666_000
MARK_STR = "EVIL-MARKER"
MARK_BYTES = b"EVIL-MARKER"
MARK_FLOAT = 666.5

CORRUPTIONS = [
    "flip_stored_head",
    "flip_stored_mid",
    "flip_stored_tail",
    "flip_decoded_mid",
    "flip_decoded_tail",
    "truncate_1",
    "truncate_half",
    "truncate_all",
    "substitute",
    "nested_pointer",
    "extra_batch",
    "zero_batches",
    "schema_rename",
    "schema_type",
    "schema_extra_column",
    "wrong_ce",
    "garbage",
]
STRUCTURAL = {"nested_pointer", "extra_batch", "zero_batches", "schema_rename", "schema_type", "schema_extra_column"}
NO_DIGEST_OK = STRUCTURAL | {"truncate_half", "truncate_all", "wrong_ce", "garbage"}


def _use_tenacity() -> str:
    try:
        import tenacity
    except ModuleNotFoundError:
        import os

        sys.path.insert(0, os.path.join(ROOT, "shims"))
        import tenacity
    return "verif-shim" if getattr(tenacity, "IS_VERIF_SHIM", False) else f"tenacity-{getattr(tenacity, '__version__', '?')}"


# ---------------------------------------------------------------------------
# storage + origin
# ---------------------------------------------------------------------------


class Store:
    """ExternalStorage + UploadUrlProvider backed by a scripted origin."""

    def __init__(self) -> None:
        from lib import origin as origin_mod

        self.origin_mod = origin_mod
        self.objects: dict[str, dict[str, Any]] = {}
        self.order: list[str] = []
        self.lock = threading.RLock()
        self.plan: dict[str, Any] | None = None
        self.variants: dict[str, tuple[bytes, str | None]] = {}
        self.corrupted_served: set[str] = set()
        self.preserving: set[str] = set()
        self.flaky = False  # a store with a transient fault: the first GET of every object answers 503
        self.flaked: set[str] = set()
        self.origin = origin_mod.Origin(self.route, name="S").start()
        self.base = self.origin.base
        self.seq = 0

    # -- ExternalStorage / UploadUrlProvider ------------------------------------
    def _new(self, kind: str) -> str:
        with self.lock:
            self.seq += 1
            oid = f"{kind}{self.seq}"
            self.objects[oid] = {"data": None, "ce": None, "kind": kind, "n": len(self.order)}
            self.order.append(oid)
            return oid

    def upload(self, data: bytes, schema: Any, *, content_encoding: str | None = None) -> str:
        oid = self._new("s")
        self.objects[oid].update(data=bytes(data), ce=content_encoding)
        return f"{self.base}/o/{oid}?X-Sig=storage-signature"

    def generate_upload_url(self, schema: Any) -> Any:
        from datetime import UTC, datetime, timedelta

        from vgi_rpc.external import UploadUrl

        oid = self._new("c")
        return UploadUrl(
            upload_url=f"{self.base}/up/{oid}?X-Sig=put-signature",
            download_url=f"{self.base}/o/{oid}?X-Sig=get-signature",
            expires_at=datetime.now(UTC) + timedelta(hours=1),
        )

    # -- per-run state ------------------------------------------------------------
    def begin(self, plan: dict[str, Any] | None = None) -> None:
        with self.lock:
            self.objects.clear()
            self.order.clear()
            self.variants.clear()
            self.corrupted_served.clear()
            self.preserving.clear()
            self.flaked.clear()
            self.plan = plan
        self.origin.clear()

    def is_target(self, oid: str) -> bool:
        if self.plan is None or oid not in self.objects or self.objects[oid]["data"] is None:
            return False
        if self.objects[oid].get("forged"):
            return False
        t = self.plan["target"]
        return t == "all" or self.objects[oid]["n"] == t

    # -- origin route -----------------------------------------------------------------
    def route(self, req: Any) -> dict[str, Any] | None:
        parts = req.path.strip("/").split("/")
        if len(parts) != 2:
            return None
        verb, oid = parts
        ent = self.objects.get(oid)
        if ent is None:
            return None
        if verb == "up" and req.method == "PUT":
            ent.update(data=bytes(req.body), ce=req.headers.get("content-encoding"))
            return {"status": 200, "body": b""}
        if verb != "o" or req.method not in ("GET", "HEAD") or ent["data"] is None:
            return {"status": 403, "body": b"method not allowed for this url"}
        data, ce = ent["data"], ent["ce"]
        if self.flaky and req.method == "GET":
            with self.lock:
                first_get = oid not in self.flaked
                self.flaked.add(oid)
            if first_get:
                return {"status": 503, "body": b"try again"}
        if self.is_target(oid):
            with self.lock:
                if oid not in self.variants:
                    self.variants[oid] = corrupt(self, oid, self.plan or {})
                    # a change confined to bytes the content coding ignores (gzip header OS byte, trailer) leaves
                    # the decoded payload - what the digest covers - intact: that is not a corrupted payload
                    try:
                        same = _decode_lenient(*self.variants[oid]) == _decode(ent["data"], ent["ce"])
                    except Exception:
                        same = False
                    if same:
                        self.preserving.add(oid)
                data, ce = self.variants[oid]
                if oid not in self.preserving:
                    self.corrupted_served.add(oid)
        return self.origin_mod.serve_object(req, {"body": data, "ce": ce})

    def close(self) -> None:
        self.origin.stop()


def _decode(data: bytes, ce: str | None) -> bytes:
    import zlib

    import zstandard

    if ce == "zstd":
        return zstandard.ZstdDecompressor().decompressobj().decompress(data)
    if ce == "gzip":
        return zlib.decompress(data, 31)
    return data


def _decode_lenient(data: bytes, ce: str | None) -> bytes:
    """Whatever a streaming decoder yields before it would complain (tolerates a cut trailer)."""
    import zlib

    import zstandard

    if ce == "zstd":
        return zstandard.ZstdDecompressor().decompressobj().decompress(data)
    if ce == "gzip":
        return zlib.decompressobj(31).decompress(data)
    return data


def _encode(data: bytes, ce: str | None) -> bytes:
    import gzip

    import zstandard

    if ce == "zstd":
        return zstandard.ZstdCompressor(level=3).compress(data)
    if ce == "gzip":
        return gzip.compress(data, mtime=0)
    return data


def _read_ipc(raw: bytes) -> tuple[Any, list[tuple[Any, Any]]]:
    import pyarrow as pa
    from pyarrow import ipc

    rd = ipc.open_stream(pa.BufferReader(raw))
    out = []
    while True:
        try:
            b, cm = rd.read_next_batch_with_custom_metadata()
        except StopIteration:
            break
        out.append((b, cm))
    return rd.schema, out


def _write_ipc(schema: Any, batches: list[tuple[Any, Any]]) -> bytes:
    import pyarrow as pa
    from pyarrow import ipc

    sink = pa.BufferOutputStream()
    with ipc.new_stream(sink, schema) as w:
        for b, cm in batches:
            if cm is not None:
                w.write_batch(b, custom_metadata=cm)
            else:
                w.write_batch(b)
    return sink.getvalue().to_pybytes()


def _marker_array(typ: Any, n: int) -> Any:
    import pyarrow as pa

    if pa.types.is_integer(typ):
        return pa.array([MARK_INT % 100 + 66 if typ.bit_width < 32 else MARK_INT + i for i in range(n)], type=typ)
    if pa.types.is_floating(typ):
        return pa.array([MARK_FLOAT] * n, type=typ)
    if pa.types.is_string(typ) or pa.types.is_large_string(typ):
        return pa.array([MARK_STR] * n, type=typ)
    if pa.types.is_binary(typ) or pa.types.is_large_binary(typ):
        return pa.array([MARK_BYTES] * n, type=typ)
    if pa.types.is_boolean(typ):
        return pa.array([True] * n, type=typ)
    return pa.nulls(n, type=typ)


def _is_log(cm: Any) -> bool:
    return cm is not None and cm.get(b"vgi_rpc.log_level") is not None


def _forge(schema: Any, batches: list[tuple[Any, Any]], *, rows: int | None = None) -> list[tuple[Any, Any]]:
    """Same shape, marker content (data values and log messages)."""
    import pyarrow as pa

    out = []
    for b, cm in batches:
        if _is_log(cm):
            md = dict(cm.items())
            md[b"vgi_rpc.log_message"] = MARK_STR.encode()
            out.append((b, pa.KeyValueMetadata(md)))
        else:
            n = b.num_rows if rows is None else rows
            out.append((pa.RecordBatch.from_arrays([_marker_array(f.type, n) for f in schema], schema=schema), cm))
    return out


def corrupt(store: Store, oid: str, plan: dict[str, Any]) -> tuple[bytes, str | None]:
    """Corrupted (bytes, content-encoding) for object *oid* according to *plan*."""
    import pyarrow as pa

    ent = store.objects[oid]
    data: bytes = ent["data"]
    ce: str | None = ent["ce"]
    mode = plan["mode"]

    def flip(buf: bytes, pos: int) -> bytes:
        if not buf:
            return b"\x01"
        pos = max(0, min(len(buf) - 1, pos))
        return buf[:pos] + bytes([buf[pos] ^ 0x5A]) + buf[pos + 1 :]

    if mode == "flip_stored_head":
        return flip(data, 9), ce
    if mode == "flip_stored_mid":
        return flip(data, len(data) // 2), ce
    if mode == "flip_stored_tail":
        return flip(data, len(data) - 1), ce
    if mode == "truncate_1":
        return data[:-1], ce
    if mode == "truncate_half":
        return data[: len(data) // 2], ce
    if mode == "truncate_all":
        return b"", ce
    if mode == "garbage":
        return b"this is not an arrow stream " * 4, ce
    if mode == "wrong_ce":
        return data, {None: "zstd", "zstd": "gzip", "gzip": None}[ce]
    raw = _decode(data, ce)
    if mode == "flip_decoded_mid":
        return _encode(flip(raw, len(raw) // 2), ce), ce
    if mode == "flip_decoded_tail":
        return _encode(flip(raw, len(raw) - 12), ce), ce
    schema, batches = _read_ipc(raw)
    if mode == "substitute":
        return _encode(_write_ipc(schema, _forge(schema, batches)), ce), ce
    if mode == "nested_pointer":
        forged = _encode(_write_ipc(schema, _forge(schema, batches)), ce)
        with store.lock:
            store.seq += 1
            fid = f"f{store.seq}"
            store.objects[fid] = {"data": forged, "ce": ce, "kind": "f", "n": -1, "forged": True}
        ptr = pa.RecordBatch.from_arrays([pa.array([], type=f.type) for f in schema], schema=schema)
        cm = pa.KeyValueMetadata({b"vgi_rpc.location": f"{store.base}/o/{fid}?X-Sig=forged".encode()})
        logs = [(b, c) for b, c in batches if _is_log(c)]
        return _encode(_write_ipc(schema, [*logs, (ptr, cm)]), ce), ce
    if mode == "extra_batch":
        datab = [(b, c) for b, c in batches if not _is_log(c)]
        extra = _forge(schema, datab[:1] or [(pa.RecordBatch.from_arrays([pa.array([], type=f.type) for f in schema], schema=schema), None)], rows=1)
        pos = plan.get("pos", "after")
        return _encode(_write_ipc(schema, [*batches, *extra] if pos == "after" else [*extra, *batches]), ce), ce
    if mode == "zero_batches":
        return _encode(_write_ipc(schema, [(b, c) for b, c in batches if _is_log(c)]), ce), ce
    if mode.startswith("schema_"):
        fields = list(schema)
        if mode == "schema_rename" and fields:
            fields[0] = pa.field(fields[0].name + "_x", fields[0].type, fields[0].nullable)
        elif mode == "schema_type" and fields:
            t = fields[0].type
            nt = pa.int32() if pa.types.is_int64(t) else pa.int64() if pa.types.is_integer(t) else pa.large_string() if pa.types.is_string(t) else pa.large_binary() if pa.types.is_binary(t) else pa.float32() if pa.types.is_float64(t) else pa.string()
            fields[0] = pa.field(fields[0].name, nt, fields[0].nullable)
        else:
            fields.append(pa.field("extra_col", pa.int64()))
        ns = pa.schema(fields, metadata=schema.metadata)
        nb = []
        for b, c in batches:
            cols = []
            for i, f in enumerate(ns):
                if i < b.num_columns:
                    try:
                        cols.append(b.column(i).cast(f.type))
                    except Exception:
                        cols.append(_marker_array(f.type, b.num_rows))
                else:
                    cols.append(_marker_array(f.type, b.num_rows))
            nb.append((pa.RecordBatch.from_arrays(cols, schema=ns), c))
        return _encode(_write_ipc(ns, nb), ce), ce
    raise ValueError(mode)


# ---------------------------------------------------------------------------
# tolerant call runner (rig.run_calls stops at the first non-RpcError)
# ---------------------------------------------------------------------------


def run_call(proxy: Any, program: dict[str, Any], call: dict[str, Any], sink: list[Any]) -> list[Any]:
    import pyarrow as pa

    from lib import rig, svcgen
    from vgi_rpc.rpc import AnnotatedBatch, RpcError

    methods = {m["name"]: m for m in program["methods"]}
    m = methods[call["m"]]
    ev: list[Any] = []
    sink.clear()

    def flush() -> None:
        ev.extend(sink)
        sink.clear()

    def fail(e: BaseException) -> None:
        flush()
        if isinstance(e, RpcError):
            ev.append(["error", e.error_type, e.error_message])
        else:
            ev.append(["exception", type(e).__name__, str(e)[:300]])

    try:
        fn = getattr(proxy, call["m"])
        if m["kind"] == "unary":
            res = fn(**call["args"])
            flush()
            ev.append(["result", res])
            return ev
        sess = fn(**call["args"])
        flush()
        if getattr(sess, "header", None) is not None:
            h = sess.header
            ev.append(["header", {"label": h.label, "n": h.n}])
        if m["kind"] == "producer":
            take = call.get("take")
            it = iter(sess)
            n = 0
            while take is None or n < take:
                try:
                    ab = next(it)
                except StopIteration:
                    flush()
                    ev.append(["end"])
                    return ev
                flush()
                ev.append(rig.norm_batch(ab))
                ab.release()
                n += 1
            if call.get("end", "close") == "cancel":
                sess.cancel()
                sink.clear()
                ev.append(["cancelled"])
            else:
                sess.close()
                sink.clear()
                ev.append(["closed"])
            return ev
        in_schema = svcgen.schema_of(m["in_cols"])
        for inp in call.get("inputs", []):
            b = pa.RecordBatch.from_pydict(inp, schema=in_schema)
            ab = sess.exchange(AnnotatedBatch(batch=b))
            flush()
            ev.append(rig.norm_batch(ab))
            ab.release()
        if call.get("end", "close") == "cancel":
            sess.cancel()
            sink.clear()
            ev.append(["cancelled"])
        else:
            sess.close()
            sink.clear()
            ev.append(["closed"])
    except BaseException as e:  # noqa: BLE001 - the outcome is the observation
        fail(e)
    return ev


def norm_inv(inv: list[tuple[Any, ...]]) -> list[Any]:
    out: list[Any] = []
    for e in inv:
        if e[0] in ("unary", "init"):
            out.append([e[0], e[1], e[2], e[3]])
        elif e[0] == "step":
            out.append(["step", e[1], e[2], e[3], e[4]])
        elif e[0] == "cancel":
            out.append(["cancel", e[1], e[2], e[3]])
        else:
            out.append(list(e))
    return out


def canon(x: Any) -> str:
    return repr(x)


def shrink(x: Any, depth: int = 0) -> Any:
    """Witness-sized copy: long strings / bytes / lists abbreviated."""
    if isinstance(x, str):
        return x if len(x) <= 80 else f"{x[:40]}...<{len(x)} chars>"
    if isinstance(x, (bytes, bytearray)):
        return bytes(x) if len(x) <= 40 else f"<{len(x)} bytes {bytes(x[:12]).hex()}...>"
    if isinstance(x, dict):
        return {shrink(k, depth + 1) if isinstance(k, str) else k: shrink(v, depth + 1) for k, v in list(x.items())[:30]}
    if isinstance(x, (list, tuple)):
        seq = [shrink(v, depth + 1) for v in list(x)[:12]]
        if len(x) > 12:
            seq.append(f"...<{len(x)} items>")
        return seq
    return x


# ---------------------------------------------------------------------------
# configurations
# ---------------------------------------------------------------------------


class Env:
    """Per-shard: store, resolver hooks, config cache."""

    def __init__(self) -> None:
        from vgi_rpc import external as ext

        self.ext = ext
        self.store = Store()
        self.resolved: list[tuple[str, str]] = []  # (oid, "returned"|"raised:<type>")
        self.fetched: list[str] = []
        self.cfgs: dict[str, Any] = {}
        self.drop_digest = False
        env = self
        self._orig_far = ext._fetch_and_resolve
        self._orig_make = ext.make_external_location_batch

        def far(expected_schema: Any, url: str, *a: Any, **k: Any) -> Any:
            oid = url.split("/o/")[-1].split("?")[0]
            try:
                r = env._orig_far(expected_schema, url, *a, **k)
            except BaseException as exc:
                env.resolved.append((oid, f"raised:{type(exc).__name__}"))
                raise
            env.resolved.append((oid, "returned"))
            return r

        def make(schema: Any, url: str, sha256: str | None = None) -> Any:
            return env._orig_make(schema, url, None if env.drop_digest else sha256)

        ext._fetch_and_resolve = far  # type: ignore[assignment]
        ext.make_external_location_batch = make  # type: ignore[assignment]

    def allow(self, url: str) -> None:
        if not url.startswith(self.store.base + "/"):
            raise ValueError("only the test storage origin is allowed")

    def cfg(self, threshold: int | None, codec: str | None, fetch: str, *, storage: bool = True) -> Any:
        key = f"{threshold}:{codec}:{fetch}:{storage}"
        c = self.cfgs.get(key)
        if c is None:
            fc = (
                self.ext.FetchConfig(parallel_threshold_bytes=128, chunk_size_bytes=100, max_parallel_requests=4, timeout_seconds=10.0)
                if fetch == "parallel"
                else self.ext.FetchConfig(timeout_seconds=10.0)
            )
            c = self.cfgs[key] = self.ext.ExternalLocationConfig(
                storage=self.store if storage else None,
                externalize_threshold_bytes=10**12 if threshold is None else threshold,
                max_retries=1,
                retry_delay_seconds=0.0,
                fetch_config=fc,
                compression=self.ext.Compression(algorithm=codec) if codec else None,  # type: ignore[arg-type]
                url_validator=self.allow,
            )
        return c

    def close(self) -> None:
        self.ext._fetch_and_resolve = self._orig_far  # type: ignore[assignment]
        self.ext.make_external_location_batch = self._orig_make  # type: ignore[assignment]
        for c in self.cfgs.values():
            with contextlib.suppress(Exception):
                c.fetch_config.close()
        self.store.close()


@contextlib.contextmanager
def open_upload_http(env: Env, program: dict[str, Any], on_log: Any, *, cap: int | None, server_cfg: Any, client_cfg: Any) -> Any:
    """HTTP through a real httpx2.Client so the client-upload path is available; storage host goes to the origin."""
    import httpx2

    from lib import svcgen
    from vgi_rpc.http import http_connect, make_wsgi_app
    from vgi_rpc.rpc import RpcServer

    proto, impl = svcgen.build(program)
    server = RpcServer(proto, impl, external_location=server_cfg)
    app = make_wsgi_app(server, token_key=b"k" * 32, upload_url_provider=env.store if cap is not None else None, max_request_bytes=cap, compression_level=None, enable_landing_page=False, enable_describe_page=False)
    client = httpx2.Client(
        mounts={env.store.base: httpx2.HTTPTransport(), "all://": httpx2.WSGITransport(app=app)},
        base_url="http://svc.test",
        timeout=20.0,
    )
    try:
        with http_connect(proto, client=client, on_log=on_log, external_location=client_cfg, compression_level=None) as proxy:
            yield proxy, impl
    finally:
        client.close()


def execute(env: Env, program: dict[str, Any], spec: dict[str, Any], *, per_call_transport: bool = False, plan: dict[str, Any] | None = None) -> dict[str, Any]:
    """Run the program's calls under *spec*; returns traces, normalized inv, storage/resolver observations."""
    from lib import rig

    logs: list[Any] = []

    def on_log(msg: Any) -> None:
        logs.append(rig.norm_log(msg))

    env.store.begin(plan)
    env.store.flaky = bool(spec.get("flaky"))
    env.resolved.clear()
    env.drop_digest = bool(spec.get("drop_digest"))
    traces: list[Any] = []
    invs: list[Any] = []

    @contextlib.contextmanager
    def transport() -> Any:
        if spec["leg"] == "upload":
            scfg = env.cfg(None, None, spec.get("fetch", "single"), storage=False)
            with open_upload_http(env, program, on_log, cap=spec["cap"], server_cfg=scfg if spec["cap"] is not None else None, client_cfg=scfg if spec["cap"] is not None else None) as pi:
                yield pi
        else:
            ext = None if spec["threshold"] == "inline" else env.cfg(spec["threshold"], spec["codec"], spec.get("fetch", "single"))
            cfg = {"kind": spec["kind"], "external_location": ext}
            if spec["kind"] == "http":
                cfg["app_kwargs"] = {"token_key": b"k" * 32, "enable_landing_page": False, "enable_describe_page": False}
            with rig.open_transport(program, cfg, on_log) as pi:
                yield pi

    if per_call_transport:
        for call in program["calls"]:
            try:
                with transport() as (proxy, impl):
                    traces.append(run_call(proxy, program, call, logs))
                    time.sleep(0)
                    invs.append(norm_inv(list(impl.inv)))
            except BaseException as exc:  # noqa: BLE001
                traces.append([["transport_exception", type(exc).__name__, str(exc)[:200]]])
                invs.append([])
    else:
        try:
            with transport() as (proxy, impl):
                for call in program["calls"]:
                    traces.append(run_call(proxy, program, call, logs))
                invs = norm_inv(list(impl.inv))
        except BaseException as exc:  # noqa: BLE001
            traces.append([["transport_exception", type(exc).__name__, str(exc)[:200]]])
    env.drop_digest = False
    st = env.store
    return {
        "traces": traces,
        "inv": invs,
        "uploads": [o for o in st.order if st.objects[o]["kind"] == "s" and st.objects[o]["data"] is not None],
        "client_puts": [o for o in st.order if st.objects[o]["kind"] == "c" and st.objects[o]["data"] is not None],
        "resolved": list(env.resolved),
        "corrupted_served": set(st.corrupted_served),
        "preserving": set(st.preserving),
        "origin_requests": len(st.origin.snapshot()),
        "range_requests": sum(1 for e in st.origin.snapshot() if e["headers"].get("range")),
    }


# ---------------------------------------------------------------------------
# program generation
# ---------------------------------------------------------------------------


def gen_programs(seed: int, n: int, *, big_args: bool = False) -> list[dict[str, Any]]:
    from lib import svcgen, tygen

    rng = random.Random(seed)
    out = []
    for _ in range(n):
        p = svcgen.gen_program(rng, nmethods=rng.choice([2, 3, 4]), ncalls=rng.choice([2, 3, 4]))
        for m in p["methods"]:
            # a failing init of a header-less stream desynchronises socket transports (C04's subject) and would
            # make later calls on the same connection differ for reasons unrelated to externalization
            if m["kind"] != "unary" and m["init"]["act"][0] == "raise":
                m["init"]["act"] = ("ok",)
        # a producer and an exchange whose binary batches do not shrink under any codec (photos, parquet pages, ...)
        p["methods"].append(
            {
                "name": "prnd",
                "kind": "producer",
                "params": [],
                "header": rng.random() < 0.3,
                "out_cols": ["b", "i"],
                "init": {"logs": [], "act": ("ok",)},
                "steps": [{"logs": [("INFO", "r", {})] if rng.random() < 0.5 else [], "act": "emit", "rows": rng.choice([1, 3]), "pad": rng.choice([300, 3000, 20000]), "rnd": True} for _ in range(rng.choice([1, 2, 3]))],
            }
        )
        p["calls"].insert(rng.randrange(len(p["calls"]) + 1), {"m": "prnd", "args": {}, "take": None, "end": "close"})
        if big_args:
            # make sure there are methods with sizeable str / bytes parameters and exchange inputs
            p["methods"].append({"name": "ubig", "kind": "unary", "params": [("s", ("str",)), ("b", ("bytes",)), ("k", ("int",))], "ret": ("int",), "u": {"logs": [("INFO", "big", {})], "act": ("echo", "k")}})
            p["methods"].append(
                {
                    "name": "xbig",
                    "kind": "exchange",
                    "params": [("s", ("str",))],
                    "header": rng.random() < 0.5,
                    "in_cols": ["s", "i"],
                    "out_cols": ["s", "i"],
                    "init": {"logs": [], "act": ("ok",)},
                    "steps": [{"logs": [("INFO", "x", {})], "act": "emit"}],
                }
            )
            for _ in range(rng.choice([2, 3])):
                if rng.random() < 0.5:
                    p["calls"].append({"m": "ubig", "args": {"s": "s" * rng.choice([10, 5000, 12000]), "b": b"\x01\x02" * rng.choice([5, 3000, 8000]), "k": rng.randrange(1000)}})
                else:
                    rows = rng.choice([1, 200, 600])
                    p["calls"].append(
                        {
                            "m": "xbig",
                            "args": {"s": "q" * rng.choice([5, 9000])},
                            "inputs": [{"s": [f"row{r}" + "y" * rng.choice([0, 30]) for r in range(rows)], "i": list(range(rows))} for _ in range(rng.choice([1, 2]))],
                            "end": "close",
                        }
                    )
            rng.shuffle(p["calls"])
        _ = tygen
        out.append(p)
    return out


def _job_programs(job: dict[str, Any]) -> list[dict[str, Any]]:
    """Programs are regenerated inside the shard (they contain bytes values, jobs are JSON)."""
    if "programs" in job:
        return job["programs"]
    g = job["gen"]
    return gen_programs(g["seed"], g["n"], big_args=g.get("big_args", False))[g["i"] :: g["step"]]


def _contains_marker(x: Any) -> bool:
    if isinstance(x, str):
        return MARK_STR in x
    if isinstance(x, (bytes, bytearray)):
        return MARK_BYTES in bytes(x)
    if isinstance(x, bool):
        return False
    if isinstance(x, int):
        return MARK_INT <= x < MARK_INT + 100_000
    if isinstance(x, float):
        return x == MARK_FLOAT
    if isinstance(x, dict):
        return any(_contains_marker(k) or _contains_marker(v) for k, v in x.items())
    if isinstance(x, (list, tuple, set, frozenset)):
        return any(_contains_marker(v) for v in x)
    return False


def _clause(mode: str, digest: bool) -> str:
    """Which integrity clause of the statement a corruption kind exercises (stable key component)."""
    if digest:
        return "sha256"
    if mode == "nested_pointer":
        return "nested_pointer"
    if mode in ("extra_batch", "zero_batches"):
        return "batch_count"
    if mode.startswith("schema_"):
        return "schema"
    return "undecodable_payload"


def _thr_class(t: Any) -> str:
    return "inline" if t == "inline" else "never" if t is None else "zero" if t == 0 else "mid"


# ---------------------------------------------------------------------------
# shards
# ---------------------------------------------------------------------------


class _Chk(Check):
    def violation(self, key: str, what: str, witness: Any = None) -> None:
        super().violation(key, what, shrink(witness))

    def sample(self, obj: Any) -> None:
        super().sample(shrink(obj))


def run_transparency(job: dict[str, Any]) -> dict[str, Any]:
    impl_name = _use_tenacity()
    chk = _Chk(PID, job["tier"], job["seed"])
    chk.hit(f"tenacity_impl:{impl_name}")
    env = Env()
    try:
        for program in _job_programs(job):
            for kind in job["kinds"]:
                leg = job["leg"]
                if leg == "offload":
                    ref = execute(env, program, {"leg": "offload", "kind": kind, "threshold": "inline", "codec": None})
                else:
                    ref = execute(env, program, {"leg": "upload", "cap": None})
                if any(ev and ev[-1][0] in ("exception", "transport_exception") for ev in ref["traces"]):
                    chk.skip("reference_run_raised_non_rpc_exception")
                    continue
                for spec in job["specs"]:
                    spec = {**spec, "kind": kind, "leg": leg}
                    got = execute(env, program, spec)
                    ext_kinds = []
                    if got["uploads"]:
                        ext_kinds.append("srv")
                    if got["client_puts"]:
                        ext_kinds.append("cli")
                    nres = sum(1 for _, r in got["resolved"] if r == "returned")
                    label = f"T:{leg}:{kind}:{_thr_class(spec.get('threshold'))}:{spec.get('codec')}:{spec.get('fetch', 'single')}:cap{spec.get('cap')}:{'+'.join(ext_kinds) or 'none'}"
                    chk.case(label)
                    chk.hit("T_runs")
                    if nres:
                        chk.hit("T_objects_resolved", nres)
                    if got["uploads"]:
                        chk.hit("T_server_offload_runs")
                        inline_items = sum(1 for tr in got["traces"] for e in tr if e[0] in ("batch", "result", "header"))
                        if inline_items > nres:
                            chk.hit("T_mixed_inline_and_external_run")
                    if got["client_puts"]:
                        chk.hit("T_client_upload_runs")
                    if got["range_requests"]:
                        chk.hit("T_parallel_fetch_runs")
                    if spec.get("codec") and got["uploads"]:
                        chk.hit(f"T_codec_{spec['codec']}")
                    wit = {
                        "transport": kind,
                        "spec": spec,
                        "program": {"methods": program["methods"], "calls": program["calls"]},
                        "uploads": len(got["uploads"]),
                        "client_puts": len(got["client_puts"]),
                        "resolved": got["resolved"][:10],
                    }
                    for i, (a, b) in enumerate(zip(ref["traces"], got["traces"], strict=False)):
                        if canon(a) != canon(b):
                            first = next((j for j, (x, y) in enumerate(zip(a, b, strict=False)) if canon(x) != canon(y)), min(len(a), len(b)))
                            ea = a[first] if first < len(a) else ["<missing>"]
                            eb = b[first] if first < len(b) else ["<missing>"]
                            m = next(mm for mm in program["methods"] if mm["name"] == program["calls"][i]["m"])
                            chk.violation(
                                f"trace_differs:{leg}:{kind}:{m['kind']}",
                                "externalized delivery differs from inline delivery",
                                {**wit, "call": program["calls"][i], "inline": a[max(0, first - 1) : first + 2], "external": b[max(0, first - 1) : first + 2]},
                            )
                            break
                    else:
                        if len(ref["traces"]) != len(got["traces"]):
                            chk.violation(f"trace_differs:{leg}:{kind}:call_count", "different number of completed calls", wit)
                        else:
                            chk.hit("T_traces_equal")
                    if canon(ref["inv"]) != canon(got["inv"]):
                        chk.violation(f"server_invocations_differ:{leg}:{kind}", "server-side invocation log differs between inline and externalized run", {**wit, "inline": ref["inv"][:6], "external": got["inv"][:6]})
                    else:
                        chk.hit("T_inv_equal")
                    if len(chk.samples) < 3 and got["uploads"] and got["client_puts"] == [] and nres > 2:
                        chk.sample({k: v for k, v in wit.items() if k != "program"} | {"calls": program["calls"][:2]})
                    if len(chk.samples) < 4 and got["client_puts"]:
                        chk.sample({k: v for k, v in wit.items() if k != "program"})
    finally:
        env.close()
    return chk.to_result()


def run_corruption(job: dict[str, Any]) -> dict[str, Any]:
    impl_name = _use_tenacity()
    chk = _Chk(PID, job["tier"], job["seed"])
    chk.hit(f"tenacity_impl:{impl_name}")
    env = Env()
    rng = random.Random(job["seed"] * 31 + 7)
    cursors: dict[bool, int] = {}
    try:
        for program in _job_programs(job):
            for base in job["specs"]:
                leg = base["leg"]
                kinds = job["kinds"] if leg == "offload" else ["http"]
                for kind in kinds:
                    spec = {**base, "kind": kind}
                    if leg == "offload":
                        ref = execute(env, program, {"leg": "offload", "kind": kind, "threshold": "inline", "codec": None}, per_call_transport=True)
                    else:
                        ref = execute(env, program, {"leg": "upload", "cap": None}, per_call_transport=True)
                    honest = execute(env, program, spec, per_call_transport=True)
                    nobj = len(honest["uploads"]) + len(honest["client_puts"])
                    if nobj == 0:
                        chk.skip("K_program_externalizes_nothing_under_spec")
                        continue
                    digest = leg == "offload" and not spec.get("drop_digest")
                    modes = [m for m in job["modes"] if digest or m in NO_DIGEST_OK]
                    if job["tier"] == "quick":
                        k = min(len(modes), job.get("modes_per_program", 6))
                        cursor = cursors.get(digest, job["gen"]["i"] * 3 if "gen" in job else 0)
                        modes = [modes[(cursor + j) % len(modes)] for j in range(k)]  # cyclic: every kind is reached
                        cursors[digest] = cursor + k
                    for mode in modes:
                        for target in ("all", rng.randrange(nobj)) if nobj > 1 and (job["tier"] != "quick" or rng.random() < 0.4) else ("all",):
                            plan = {"mode": mode, "target": target, "pos": rng.choice(["after", "before"])}
                            got = execute(env, program, spec, per_call_transport=True, plan=plan)
                            served = got["corrupted_served"]
                            outcome = "untouched"
                            wit = {
                                "transport": kind,
                                "spec": spec,
                                "plan": plan,
                                "calls": program["calls"],
                                "methods": [m["name"] + ":" + m["kind"] for m in program["methods"]],
                                "resolved": got["resolved"][:8],
                                "corrupted_objects_served": sorted(served),
                                "traces": [t[-3:] for t in got["traces"]][:4],
                            }
                            if got["preserving"]:
                                chk.skip("K_change_confined_to_bytes_the_content_coding_ignores", len(got["preserving"]))
                            if not served:
                                chk.skip("K_corrupted_object_never_fetched")
                                continue
                            chk.hit("K_corrupted_objects_fetched", len(served))
                            # (iii) resolver hook
                            judged_by_hook = digest or mode in STRUCTURAL
                            bad = [oid for oid, r in got["resolved"] if r == "returned" and oid in served]
                            if bad and judged_by_hook:
                                chk.violation(
                                    f"corrupted_object_resolved:{_clause(mode, digest)}",
                                    f"resolve step returned a batch for an object served corrupted ({mode}; {'pointer carries a digest' if digest else 'pointer without digest'})",
                                    wit,
                                )
                                outcome = "resolved"
                            elif bad:
                                chk.skip("K_no_digest_content_corruption_undetectable")
                                outcome = "undetectable"
                            else:
                                chk.hit("K_resolver_refused")
                                outcome = "refused"
                            # (i) markers
                            if _contains_marker(got["traces"]):
                                chk.violation(f"forged_data_reached_client:{_clause(mode, digest)}", "marker values of a forged object appear in client-visible events", wit)
                            if _contains_marker(got["inv"]):
                                chk.violation(f"forged_data_reached_server_method:{_clause(mode, digest)}", "marker values of a forged object appear in the server's invocation log (kwargs / input batches)", wit)
                            # (ii) prefix rule, per call
                            if judged_by_hook or digest:
                                for i, (a, b) in enumerate(zip(ref["traces"], got["traces"], strict=False)):
                                    body = b[:-1] if b and b[-1][0] in ("error", "exception", "transport_exception") and canon(b) != canon(a) else b
                                    if canon(a[: len(body)]) != canon(body):
                                        chk.violation(
                                            f"delivered_events_not_prefix_of_inline:{_clause(mode, digest)}",
                                            "events delivered before the failure differ from inline delivery",
                                            {**wit, "call": program["calls"][i], "inline": a[:4], "got": b[:4]},
                                        )
                                        break
                                    if body is not b:
                                        chk.hit("K_call_failed_cleanly")
                                for i, (a, b) in enumerate(zip(ref["inv"], got["inv"], strict=False)):
                                    if canon(a[: len(b)]) != canon(b):
                                        chk.violation(
                                            f"server_invocations_not_prefix_of_inline:{_clause(mode, digest)}",
                                            "server-side invocations under corruption are not a prefix of the inline ones",
                                            {**wit, "call": program["calls"][i], "inline": a[:4], "got": b[:4]},
                                        )
                                        break
                            item = "request" if leg == "upload" else "response"
                            chk.case(f"K:{kind}:{item}:{'digest' if digest else 'no_digest'}:{mode}:{'all' if target == 'all' else 'one'}:{spec.get('codec')}:{outcome}")
                            chk.hit("K_runs")
                            chk.hit(f"K_mode_{mode}")
                            if len(chk.samples) < 4 and outcome == "refused" and mode in ("nested_pointer", "substitute", "extra_batch"):
                                chk.sample(wit)
    finally:
        env.close()
    return chk.to_result()


def run_shard(job: dict[str, Any]) -> dict[str, Any]:
    return {"T": run_transparency, "K": run_corruption}[job["fn"]](job)


def main(tier: str, seed: int) -> int:
    chk = Check(PID, tier, seed, level=CATEGORY, rule=RULE)
    chk.require(
        "T_runs",
        "T_objects_resolved",
        "T_server_offload_runs",
        "T_client_upload_runs",
        "T_mixed_inline_and_external_run",
        "T_parallel_fetch_runs",
        "T_codec_zstd",
        "T_codec_gzip",
        "T_traces_equal",
        "T_inv_equal",
        "K_runs",
        "K_corrupted_objects_fetched",
        "K_resolver_refused",
        "K_call_failed_cleanly",
        *[f"K_mode_{m}" for m in CORRUPTIONS],
    )
    quick = tier == "quick"
    nprog = 14 if quick else 200
    n_off, n_up, n_k, n_ku = nprog, (8 if quick else 80), (6 if quick else 40), (4 if quick else 24)
    thresholds: list[Any] = [0, 48, 300, None] if quick else [0, 48, 200, 900, None]
    specs = []
    for t in thresholds:
        for codec in (None, "zstd", "gzip"):
            if t is None and codec:
                continue
            specs.append({"threshold": t, "codec": codec, "fetch": "parallel" if (len(specs) % 3 == 1) else "single"})
    # the same grid against a store with a transient fault (first GET of every object: 503, the retry succeeds)
    specs += [{"threshold": 0, "codec": None, "fetch": "single", "flaky": True}, {"threshold": 48, "codec": "zstd", "fetch": "single", "flaky": True}]
    up_specs = [{"cap": c, "fetch": f} for c, f in ((3000, "single"), (8000, "parallel"), (20000, "single"), (10**9, "single"))]
    jobs: list[dict[str, Any]] = []
    n = shard.ncpu()

    def gens(gseed: int, count: int, nshards: int, big: bool = False) -> list[dict[str, Any]]:
        nshards = max(1, min(nshards, count))
        return [{"seed": gseed, "n": count, "big_args": big, "i": i, "step": nshards} for i in range(nshards)]

    for g in gens(seed * 1000 + 1, n_off, n if quick else n * 2):
        jobs.append({"fn": "T", "tier": tier, "seed": seed, "leg": "offload", "gen": g, "kinds": ["pipe", "http"], "specs": specs})
    for g in gens(seed * 1000 + 2, n_up, n // 2 if quick else n, True):
        jobs.append({"fn": "T", "tier": tier, "seed": seed, "leg": "upload", "gen": g, "kinds": ["http"], "specs": up_specs})
    kspecs = [
        {"leg": "offload", "threshold": 0, "codec": None, "fetch": "single"},
        {"leg": "offload", "threshold": 0, "codec": "zstd", "fetch": "parallel"},
        {"leg": "offload", "threshold": 48, "codec": "gzip", "fetch": "single"},
        {"leg": "offload", "threshold": 0, "codec": None, "fetch": "single", "drop_digest": True},
        {"leg": "offload", "threshold": 0, "codec": "zstd", "fetch": "single", "drop_digest": True},
    ]
    for k, g in enumerate(gens(seed * 1000 + 3, n_k, n if quick else n * 2)):
        jobs.append({"fn": "K", "tier": tier, "seed": seed + k, "gen": g, "kinds": ["pipe", "http"], "specs": kspecs, "modes": CORRUPTIONS, "modes_per_program": 4})
    for k, g in enumerate(gens(seed * 1000 + 4, n_ku, n // 2 if quick else n, True)):
        jobs.append({"fn": "K", "tier": tier, "seed": seed + 100 + k, "gen": g, "kinds": ["http"], "specs": [{"leg": "upload", "cap": 3000, "fetch": "single"}], "modes": CORRUPTIONS, "modes_per_program": 6})
    for res in shard.pmap("checks.c30", "run_shard", jobs, timeout=900 if quick else 3000):
        chk.merge(res)
    impls = sorted(k.split(":", 1)[1] for k in chk.hits if k.startswith("tenacity_impl:"))
    chk.extra["tenacity_impl"] = impls
    chk.assumptions = [
        f"retry loop provided by: {', '.join(impls) or 'unknown'} (stand-in implements Retrying/stop_after_attempt/wait_fixed/retry_if_exception_type, reraise=True)",
        "pointers without a digest are judged on the structural clauses only (nested pointer, batch count, schema); content changes are undetectable there and counted",
        "a peer that sends no vgi_rpc.location.sha256 is emulated by dropping the digest argument of make_external_location_batch",
    ]
    chk.extra["programs"] = {"offload": n_off, "upload": n_up, "corruption_offload": n_k, "corruption_upload": n_ku}
    chk.exhaustive["threshold_x_compression_grid"] = True
    chk.exhaustive["corruption_kinds"] = tier == "thorough"
    chk.exhaustive["programs"] = False
    return chk.finish()

"""Stand-in for the subset of ``tenacity`` that vgi_rpc.external uses (harness scaffolding).

Only put on ``sys.path`` inside checks that need ``resolve_external_location`` to run and only
when the real package is not importable.  Implements, with tenacity's documented semantics:

    Retrying(stop=..., wait=..., retry=..., reraise=True)(fn, *args, **kwargs)
    retry_if_exception_type(types)   stop_after_attempt(n)   wait_fixed(seconds)

* ``fn`` is called; an exception for which ``retry(exc)`` is false propagates at once;
* otherwise, if ``stop(attempt_number)`` (attempt numbers start at 1) the last exception is
  re-raised when ``reraise=True`` and wrapped in ``RetryError`` otherwise;
* otherwise sleep ``wait(attempt_number)`` seconds and call again.
"""

from __future__ import annotations

import time
from collections.abc import Callable
from typing import Any

__version__ = "0-verif-shim"
IS_VERIF_SHIM = True


class RetryError(Exception):
    def __init__(self, last_exception: BaseException) -> None:
        super().__init__(last_exception)
        self.last_exception = last_exception


def retry_if_exception_type(exception_types: type[BaseException] | tuple[type[BaseException], ...] = Exception) -> Callable[[BaseException], bool]:
    return lambda exc: isinstance(exc, exception_types)


def stop_after_attempt(max_attempt_number: int) -> Callable[[int], bool]:
    return lambda attempt_number: attempt_number >= max_attempt_number


def wait_fixed(wait: float) -> Callable[[int], float]:
    return lambda attempt_number: float(wait)


class Retrying:
    def __init__(
        self,
        stop: Callable[[int], bool] = lambda n: False,
        wait: Callable[[int], float] = lambda n: 0.0,
        retry: Callable[[BaseException], bool] = retry_if_exception_type(Exception),
        reraise: bool = False,
        sleep: Callable[[float], Any] = time.sleep,
    ) -> None:
        self.stop, self.wait, self.retry, self.reraise, self.sleep = stop, wait, retry, reraise, sleep
        self.statistics: dict[str, Any] = {}

    def __call__(self, fn: Callable[..., Any], *args: Any, **kwargs: Any) -> Any:
        attempt = 0
        while True:
            attempt += 1
            self.statistics["attempt_number"] = attempt
            try:
                return fn(*args, **kwargs)
            except BaseException as exc:
                if not self.retry(exc):
                    raise
                if self.stop(attempt):
                    if self.reraise:
                        raise
                    raise RetryError(exc) from exc
                delay = self.wait(attempt)
            if delay > 0:
                self.sleep(delay)

"""Pure-Python stand-in for the ``msgpack`` package (harness scaffolding, trusted base).

Written from the MessagePack specification (https://github.com/msgpack/msgpack/blob/master/spec.md),
not from any implementation.  Only the subset the repository's compact codec uses is
provided: ``packb(obj, use_bin_type=True)`` and ``unpackb(data, raw=False)`` over
nil / bool / int (-2**63 .. 2**64-1, ``OverflowError`` beyond) / float64 / str / bin /
array / map.  float32 is decoded (never produced); ext types are rejected.

It is put on ``sys.path`` only by checks that need the "with msgpack" leg (C03) and only
when no real ``msgpack`` is importable.  It is never installed into /venv or /repo.
"""

from __future__ import annotations

import struct
from typing import Any

version = (1, 0, 0)
__version__ = "1.0.0+verif.shim"
IS_VERIF_SHIM = True


class UnpackException(Exception):
    pass


class FormatError(ValueError, UnpackException):
    pass


class StackError(ValueError, UnpackException):
    pass


class OutOfData(UnpackException):
    pass


class ExtraData(ValueError):
    def __init__(self, unpacked: Any, extra: bytes) -> None:
        super().__init__("unpack(b) received extra data.")
        self.unpacked = unpacked
        self.extra = extra


UnpackValueError = ValueError
PackException = Exception
PackValueError = ValueError
PackOverflowError = OverflowError

_MAX_DEPTH = 512


def _pack(obj: Any, out: bytearray, use_bin_type: bool, depth: int) -> None:
    if depth > _MAX_DEPTH:
        raise ValueError("recursion limit exceeded.")
    if obj is None:
        out.append(0xC0)
    elif obj is True:
        out.append(0xC3)
    elif obj is False:
        out.append(0xC2)
    elif isinstance(obj, int):
        if 0 <= obj <= 0x7F:
            out.append(obj)
        elif -32 <= obj < 0:
            out += struct.pack("b", obj)
        elif 0 < obj <= 0xFF:
            out += b"\xcc" + struct.pack(">B", obj)
        elif 0 < obj <= 0xFFFF:
            out += b"\xcd" + struct.pack(">H", obj)
        elif 0 < obj <= 0xFFFFFFFF:
            out += b"\xce" + struct.pack(">I", obj)
        elif 0 < obj <= 0xFFFFFFFFFFFFFFFF:
            out += b"\xcf" + struct.pack(">Q", obj)
        elif -0x80 <= obj < 0:
            out += b"\xd0" + struct.pack(">b", obj)
        elif -0x8000 <= obj < 0:
            out += b"\xd1" + struct.pack(">h", obj)
        elif -0x80000000 <= obj < 0:
            out += b"\xd2" + struct.pack(">i", obj)
        elif -0x8000000000000000 <= obj < 0:
            out += b"\xd3" + struct.pack(">q", obj)
        else:
            raise OverflowError("Integer value out of range")
    elif isinstance(obj, float):
        out += b"\xcb" + struct.pack(">d", obj)
    elif isinstance(obj, str):
        raw = obj.encode("utf-8")  # lone surrogates -> UnicodeEncodeError (a ValueError)
        n = len(raw)
        if n <= 31:
            out.append(0xA0 | n)
        elif n <= 0xFF and use_bin_type:
            out += b"\xd9" + struct.pack(">B", n)
        elif n <= 0xFFFF:
            out += b"\xda" + struct.pack(">H", n)
        elif n <= 0xFFFFFFFF:
            out += b"\xdb" + struct.pack(">I", n)
        else:
            raise ValueError("unicode string is too large")
        out += raw
    elif isinstance(obj, (bytes, bytearray, memoryview)):
        raw = bytes(obj)
        n = len(raw)
        if use_bin_type:
            if n <= 0xFF:
                out += b"\xc4" + struct.pack(">B", n)
            elif n <= 0xFFFF:
                out += b"\xc5" + struct.pack(">H", n)
            elif n <= 0xFFFFFFFF:
                out += b"\xc6" + struct.pack(">I", n)
            else:
                raise ValueError("bytes object is too large")
        else:
            if n <= 31:
                out.append(0xA0 | n)
            elif n <= 0xFFFF:
                out += b"\xda" + struct.pack(">H", n)
            elif n <= 0xFFFFFFFF:
                out += b"\xdb" + struct.pack(">I", n)
            else:
                raise ValueError("bytes object is too large")
        out += raw
    elif isinstance(obj, (list, tuple)):
        n = len(obj)
        if n <= 15:
            out.append(0x90 | n)
        elif n <= 0xFFFF:
            out += b"\xdc" + struct.pack(">H", n)
        elif n <= 0xFFFFFFFF:
            out += b"\xdd" + struct.pack(">I", n)
        else:
            raise ValueError("list is too large")
        for item in obj:
            _pack(item, out, use_bin_type, depth + 1)
    elif isinstance(obj, dict):
        n = len(obj)
        if n <= 15:
            out.append(0x80 | n)
        elif n <= 0xFFFF:
            out += b"\xde" + struct.pack(">H", n)
        elif n <= 0xFFFFFFFF:
            out += b"\xdf" + struct.pack(">I", n)
        else:
            raise ValueError("dict is too large")
        for k, v in obj.items():
            _pack(k, out, use_bin_type, depth + 1)
            _pack(v, out, use_bin_type, depth + 1)
    else:
        raise TypeError(f"can not serialize {type(obj).__name__!r} object")


def packb(o: Any, **kwargs: Any) -> bytes:
    """Pack *o* and return the bytes (``use_bin_type`` defaults to True as in msgpack >= 1.0)."""
    use_bin_type = bool(kwargs.pop("use_bin_type", True))
    kwargs.pop("strict_types", None)
    kwargs.pop("datetime", None)
    if kwargs.pop("default", None) is not None:
        raise NotImplementedError("verif msgpack shim: 'default' hook is not supported")
    if kwargs:
        raise TypeError(f"verif msgpack shim: unsupported packb options {sorted(kwargs)}")
    out = bytearray()
    _pack(o, out, use_bin_type, 0)
    return bytes(out)


dumps = packb


class _Reader:
    __slots__ = ("data", "pos", "raw", "strict_map_key")

    def __init__(self, data: bytes, raw: bool, strict_map_key: bool) -> None:
        self.data = data
        self.pos = 0
        self.raw = raw
        self.strict_map_key = strict_map_key

    def take(self, n: int) -> bytes:
        if self.pos + n > len(self.data):
            raise ValueError("Unpack failed: incomplete input")
        b = self.data[self.pos : self.pos + n]
        self.pos += n
        return b

    def text(self, n: int) -> Any:
        b = self.take(n)
        return b if self.raw else b.decode("utf-8")

    def seq(self, n: int, depth: int) -> list[Any]:
        return [self.read(depth + 1) for _ in range(n)]

    def mapping(self, n: int, depth: int) -> dict[Any, Any]:
        out: dict[Any, Any] = {}
        for _ in range(n):
            k = self.read(depth + 1)
            if self.strict_map_key and not isinstance(k, (str, bytes)):
                raise ValueError(f"{type(k).__name__} is not allowed for map key when strict_map_key=True")
            if isinstance(k, (list, dict)):
                raise TypeError(f"unhashable type: {type(k).__name__!r}")
            out[k] = self.read(depth + 1)
        return out

    def read(self, depth: int = 0) -> Any:
        if depth > _MAX_DEPTH:
            raise StackError("Too deep.")
        t = self.take(1)[0]
        if t <= 0x7F:
            return t
        if t >= 0xE0:
            return t - 0x100
        if 0xA0 <= t <= 0xBF:
            return self.text(t & 0x1F)
        if 0x90 <= t <= 0x9F:
            return self.seq(t & 0x0F, depth)
        if 0x80 <= t <= 0x8F:
            return self.mapping(t & 0x0F, depth)
        if t == 0xC0:
            return None
        if t == 0xC2:
            return False
        if t == 0xC3:
            return True
        if t == 0xC4:
            return self.take(self.take(1)[0])
        if t == 0xC5:
            return self.take(struct.unpack(">H", self.take(2))[0])
        if t == 0xC6:
            return self.take(struct.unpack(">I", self.take(4))[0])
        if t == 0xCA:
            return struct.unpack(">f", self.take(4))[0]
        if t == 0xCB:
            return struct.unpack(">d", self.take(8))[0]
        if t == 0xCC:
            return self.take(1)[0]
        if t == 0xCD:
            return struct.unpack(">H", self.take(2))[0]
        if t == 0xCE:
            return struct.unpack(">I", self.take(4))[0]
        if t == 0xCF:
            return struct.unpack(">Q", self.take(8))[0]
        if t == 0xD0:
            return struct.unpack(">b", self.take(1))[0]
        if t == 0xD1:
            return struct.unpack(">h", self.take(2))[0]
        if t == 0xD2:
            return struct.unpack(">i", self.take(4))[0]
        if t == 0xD3:
            return struct.unpack(">q", self.take(8))[0]
        if t == 0xD9:
            return self.text(self.take(1)[0])
        if t == 0xDA:
            return self.text(struct.unpack(">H", self.take(2))[0])
        if t == 0xDB:
            return self.text(struct.unpack(">I", self.take(4))[0])
        if t == 0xDC:
            return self.seq(struct.unpack(">H", self.take(2))[0], depth)
        if t == 0xDD:
            return self.seq(struct.unpack(">I", self.take(4))[0], depth)
        if t == 0xDE:
            return self.mapping(struct.unpack(">H", self.take(2))[0], depth)
        if t == 0xDF:
            return self.mapping(struct.unpack(">I", self.take(4))[0], depth)
        if t == 0xC1:
            raise FormatError("Unpack failed: invalid format byte 0xc1")
        raise FormatError(f"verif msgpack shim: ext type 0x{t:02x} is outside the supported subset")


def unpackb(packed: Any, **kwargs: Any) -> Any:
    """Unpack one object; trailing bytes raise ``ExtraData`` (``raw`` defaults to False)."""
    raw = bool(kwargs.pop("raw", False))
    strict_map_key = bool(kwargs.pop("strict_map_key", True))
    kwargs.pop("use_list", None)
    kwargs.pop("timestamp", None)
    for hook in ("object_hook", "object_pairs_hook", "list_hook", "ext_hook"):
        if kwargs.pop(hook, None) is not None:
            raise NotImplementedError(f"verif msgpack shim: {hook!r} is not supported")
    for limit in ("max_str_len", "max_bin_len", "max_array_len", "max_map_len", "max_ext_len", "max_buffer_size", "unicode_errors"):
        kwargs.pop(limit, None)
    if kwargs:
        raise TypeError(f"verif msgpack shim: unsupported unpackb options {sorted(kwargs)}")
    data = bytes(packed)
    r = _Reader(data, raw, strict_map_key)
    obj = r.read()
    if r.pos != len(data):
        raise ExtraData(obj, data[r.pos :])
    return obj


loads = unpackb
